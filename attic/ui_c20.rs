// user_interface() -- the REAL text of src/driver/user_interface.rs (copy made by lib/gen.py: stdin, stdout
// flush, process exit and the print reader redirected to verif_io / verif_drv) -- against the statement of
// C20: print commands are answered without advancing, n / next returns to the program, q / quit and end of
// input terminate the emulator, no input makes the prompt spin or abort.
use crate::driver::verif_drv as drv;
use crate::driver::verif_io as io;
use emulator_8086_lib::{vassert, vassume, vcover, vsym};

fn is_ws(b: u8) -> bool {
    b == b' ' || (b >= 9 && b <= 13)
}
fn lower(b: u8) -> u8 {
    if b >= b'A' && b <= b'Z' {
        b + 32
    } else {
        b
    }
}

/// reference: the command a scripted line denotes: (trimmed length, first byte, is_next, is_quit)
fn command(line: &[u8; io::LINE_MAX], len: usize, nl: bool) -> (usize, u8, bool, bool) {
    let mut buf = [0u8; io::LINE_MAX + 1];
    let mut n = 0;
    while n < len {
        buf[n] = lower(line[n] & 0x7F);
        n += 1;
    }
    if nl {
        buf[n] = b'\n';
        n += 1;
    }
    let mut a = 0;
    while a < n && is_ws(buf[a]) {
        a += 1;
    }
    let mut b = n;
    while b > a && is_ws(buf[b - 1]) {
        b -= 1;
    }
    let l = b - a;
    let is = |w: &[u8]| -> bool {
        if l != w.len() {
            return false;
        }
        let mut i = 0;
        while i < w.len() {
            if buf[a + i] != w[i] {
                return false;
            }
            i += 1;
        }
        true
    };
    (l, if l > 0 { buf[a] } else { 0 }, is(b"n") || is(b"next"), is(b"q") || is(b"quit"))
}

macro_rules! sym_line {
    ($a:ident, $b:ident, $c:ident, $d:ident, $e:ident, $f:ident) => {{
        vsym!($a: u8);
        vsym!($b: u8);
        vsym!($c: u8);
        vsym!($d: u8);
        vsym!($e: u8);
        vsym!($f: u8);
        let mut l = [$a, $b, $c, $d, $e, $f, 0, 0];
        let mut i = 0;
        while i < io::LINE_MAX {
            l[i] &= 0x7F;
            if l[i] == b'\n' {
                l[i] = b'x';
            }
            i += 1;
        }
        l
    }};
}

/// `nlines` scripted lines of the given lengths (content symbolic), each with / without a final newline, then
/// end of input.  Lengths are parameters of the harness: std String code over a symbolic length does not finish.
fn ui_body(nlines: usize, lens: [usize; 2], nls: [bool; 2]) {
    let max_lines = nlines;
    let w_nlines = nlines;
    vsym!(w_pok: bool);
    let l0 = sym_line!(w_a0, w_a1, w_a2, w_a3, w_a4, w_a5);
    let l1 = sym_line!(w_b0, w_b1, w_b2, w_b3, w_b4, w_b5);
    let lines = [(l0, lens[0], nls[0]), (l1, lens[1], nls[1])];
    let mut sc = drv::SC0;
    sc.print_ok = w_pok;
    drv::reset(sc);
    io::stdin_seq_reset();
    let mut i = 0;
    while i < w_nlines && i < 2 {
        io::stdin_seq_push(lines[i].0, lines[i].1, lines[i].2);
        i += 1;
    }
    let vm = mk_vm();
    let pre = regs(&vm);
    let printer = PrintParser::new();

    user_interface(&vm, &printer);

    // ------------------------------------------------ reference
    let n = io::log_len();
    let mut p = 0usize;
    let mut bad_order = false; // reads / answers not in the specified order
    let mut bad_answer = false; // a print command not handed to the print reader exactly once, as typed
    let mut bad_end = false; // wrong way of ending
    let mut saw_next = false;
    let mut saw_quit = false;
    let mut saw_eof = false;
    let mut saw_cmd = false;
    let skip = |p: &mut usize| {
        let mut s = 0;
        while *p < n && io::log_kind(*p) < 10 && s < 4 {
            *p += 1;
            s += 1;
        }
    };
    let mut r = 0usize;
    let mut ended = 0u8; // 1 returned to the program, 2 exited
    while r <= max_lines {
        skip(&mut p);
        if p >= n || io::log_kind(p) != drv::EV_STDIN || io::log_arg(p, 0) != r as u64 {
            bad_order = true;
            break;
        }
        p += 1;
        if r >= w_nlines {
            // end of input: the emulator terminates
            saw_eof = true;
            ended = 2;
            break;
        }
        let (l, first, is_next, is_quit) = command(&lines[r].0, lines[r].1, lines[r].2);
        if is_next {
            saw_next = true;
            ended = 1;
            break;
        }
        if is_quit {
            saw_quit = true;
            ended = 2;
            break;
        }
        saw_cmd = true;
        skip(&mut p);
        if p >= n || io::log_kind(p) != drv::EV_PRINTER || io::log_arg(p, 0) != l as u64 || io::log_arg(p, 1) != first as u64 {
            bad_answer = true;
            break;
        }
        p += 1;
        r += 1;
    }
    if !bad_order && !bad_answer {
        skip(&mut p);
        if ended == 2 {
            if !(p < n && io::log_kind(p) == drv::EV_EXIT) {
                bad_end = true;
            } else {
                p += 1;
                skip(&mut p);
            }
        }
        if p != n || (ended == 1 && drv::exited()) {
            bad_end = true;
        }
    }
    vassert!("C20.ui.one_read_per_prompt_in_order", !bad_order);
    vassert!("C20.ui.print_command_answered_without_advancing", !bad_answer);
    vassert!("C20.ui.next_returns_quit_and_end_of_input_terminate", !bad_end);
    vassert!("C20.ui.no_read_after_end_of_input", io::stdin_eof_reads() <= 1);
    vassert!("C20.ui.machine_unchanged", regs(&vm) == pre);
    vassert!("C20.ui.log_complete", !io::log_overflow());
    vcover!("C20.ui.cover.next", saw_next || max_lines == 0 || (lens[0] != 1 && lens[0] != 4 && lens[0] != 6 && lens[0] != 2));
    vcover!("C20.ui.cover.quit", saw_quit || max_lines == 0 || (lens[0] != 1 && lens[0] != 4 && lens[0] != 6 && lens[0] != 2));
    vcover!("C20.ui.cover.end_of_input", saw_eof);
    vcover!("C20.ui.cover.command_then_next", (saw_cmd && saw_next) || max_lines < 2);
    done(vm);
}

macro_rules! ui_harness {
    ($name:ident, $n:expr, $l0:expr, $nl0:expr, $l1:expr, $nl1:expr) => {
        #[cfg_attr(kani, kani::proof)]
        #[cfg_attr(kani, kani::unwind(10))]
        pub fn $name() {
            ui_body($n, [$l0, $l1], [$nl0, $nl1]);
        }
    };
}
ui_harness!(c20_ui_eof, 0, 0, true, 0, true);
ui_harness!(c20_ui_len1, 1, 1, true, 0, true);
ui_harness!(c20_ui_len4, 1, 4, true, 0, true);
ui_harness!(c20_ui_len4_no_newline, 1, 4, false, 0, true);
ui_harness!(c20_ui_len6, 1, 6, true, 0, true);
ui_harness!(c20_ui_len2_len1, 2, 2, true, 1, true);
ui_harness!(c20_ui_len5_len4__t, 2, 5, true, 4, true);

pub const TABLE: &[(&str, fn())] = &[
    ("c20_ui_eof", c20_ui_eof),
    ("c20_ui_len1", c20_ui_len1),
    ("c20_ui_len4", c20_ui_len4),
    ("c20_ui_len4_no_newline", c20_ui_len4_no_newline),
    ("c20_ui_len6", c20_ui_len6),
    ("c20_ui_len2_len1", c20_ui_len2_len1),
    ("c20_ui_len5_len4__t", c20_ui_len5_len4__t),
];
