// Association-list stand-ins for std::collections::{HashMap, HashSet}, used ONLY in the copy of
// the tree that the Kani compiler sees (cfg(kani)).  std's HashMap needs OS randomness
// (`getrandom`, unsupported by Kani) and SipHash over String keys does not terminate in CBMC.
// Same observable results for get / insert / contains_key / contains / remove / clear / iter;
// iteration order (insertion order here) is outside every claim.
#![allow(dead_code)]
use std::borrow::Borrow;

pub struct HashMap<K, V> {
    pub items: Vec<(K, V)>,
}
impl<K, V> Default for HashMap<K, V> {
    fn default() -> Self {
        HashMap { items: Vec::new() }
    }
}
impl<K: PartialEq, V> HashMap<K, V> {
    pub fn new() -> Self {
        HashMap { items: Vec::new() }
    }
    pub fn get<Q: ?Sized + PartialEq>(&self, k: &Q) -> Option<&V>
    where
        K: Borrow<Q>,
    {
        let mut i = 0;
        while i < self.items.len() {
            if self.items[i].0.borrow() == k {
                return Some(&self.items[i].1);
            }
            i += 1;
        }
        None
    }
    pub fn contains_key<Q: ?Sized + PartialEq>(&self, k: &Q) -> bool
    where
        K: Borrow<Q>,
    {
        self.get(k).is_some()
    }
    pub fn insert(&mut self, k: K, v: V) -> Option<V> {
        let mut i = 0;
        while i < self.items.len() {
            if self.items[i].0 == k {
                let old = std::mem::replace(&mut self.items[i].1, v);
                return Some(old);
            }
            i += 1;
        }
        self.items.push((k, v));
        None
    }
    pub fn remove<Q: ?Sized + PartialEq>(&mut self, k: &Q) -> Option<V>
    where
        K: Borrow<Q>,
    {
        let mut i = 0;
        while i < self.items.len() {
            if self.items[i].0.borrow() == k {
                return Some(self.items.remove(i).1);
            }
            i += 1;
        }
        None
    }
    pub fn clear(&mut self) {
        self.items.clear();
    }
    pub fn len(&self) -> usize {
        self.items.len()
    }
    pub fn is_empty(&self) -> bool {
        self.items.is_empty()
    }
    pub fn iter(&self) -> impl Iterator<Item = (&K, &V)> {
        self.items.iter().map(|(k, v)| (k, v))
    }
    pub fn iter_mut(&mut self) -> impl Iterator<Item = (&K, &mut V)> {
        self.items.iter_mut().map(|(k, v)| (&*k, v))
    }
    pub fn keys(&self) -> impl Iterator<Item = &K> {
        self.items.iter().map(|(k, _)| k)
    }
    pub fn values(&self) -> impl Iterator<Item = &V> {
        self.items.iter().map(|(_, v)| v)
    }
    pub fn values_mut(&mut self) -> impl Iterator<Item = &mut V> {
        self.items.iter_mut().map(|(_, v)| v)
    }
    pub fn get_mut<Q: ?Sized + PartialEq>(&mut self, k: &Q) -> Option<&mut V>
    where
        K: Borrow<Q>,
    {
        let mut i = 0;
        while i < self.items.len() {
            if self.items[i].0.borrow() == k {
                return Some(&mut self.items[i].1);
            }
            i += 1;
        }
        None
    }
    pub fn retain<F: FnMut(&K, &mut V) -> bool>(&mut self, mut f: F) {
        self.items.retain_mut(|(k, v)| f(&*k, v));
    }
}
impl<'a, K, V> IntoIterator for &'a HashMap<K, V> {
    type Item = (&'a K, &'a V);
    type IntoIter = std::iter::Map<std::slice::Iter<'a, (K, V)>, fn(&'a (K, V)) -> (&'a K, &'a V)>;
    fn into_iter(self) -> Self::IntoIter {
        fn split<'b, A, B>(p: &'b (A, B)) -> (&'b A, &'b B) {
            (&p.0, &p.1)
        }
        self.items.iter().map(split as fn(&'a (K, V)) -> (&'a K, &'a V))
    }
}
impl<K, V> IntoIterator for HashMap<K, V> {
    type Item = (K, V);
    type IntoIter = std::vec::IntoIter<(K, V)>;
    fn into_iter(self) -> Self::IntoIter {
        self.items.into_iter()
    }
}

pub struct HashSet<K> {
    pub items: Vec<K>,
}
impl<K> Default for HashSet<K> {
    fn default() -> Self {
        HashSet { items: Vec::new() }
    }
}
impl<K: PartialEq> HashSet<K> {
    pub fn new() -> Self {
        HashSet { items: Vec::new() }
    }
    pub fn contains<Q: ?Sized + PartialEq>(&self, k: &Q) -> bool
    where
        K: Borrow<Q>,
    {
        let mut i = 0;
        while i < self.items.len() {
            if self.items[i].borrow() == k {
                return true;
            }
            i += 1;
        }
        false
    }
    pub fn insert(&mut self, k: K) -> bool {
        if self.items.iter().any(|x| *x == k) {
            return false;
        }
        self.items.push(k);
        true
    }
    pub fn remove<Q: ?Sized + PartialEq>(&mut self, k: &Q) -> bool
    where
        K: Borrow<Q>,
    {
        let mut i = 0;
        while i < self.items.len() {
            if self.items[i].borrow() == k {
                self.items.remove(i);
                return true;
            }
            i += 1;
        }
        false
    }
    pub fn clear(&mut self) {
        self.items.clear();
    }
    pub fn len(&self) -> usize {
        self.items.len()
    }
    pub fn iter(&self) -> std::slice::Iter<'_, K> {
        self.items.iter()
    }
    pub fn is_empty(&self) -> bool {
        self.items.is_empty()
    }
    pub fn retain<F: FnMut(&K) -> bool>(&mut self, f: F) {
        self.items.retain(f);
    }
}
impl<'a, K> IntoIterator for &'a HashSet<K> {
    type Item = &'a K;
    type IntoIter = std::slice::Iter<'a, K>;
    fn into_iter(self) -> Self::IntoIter {
        self.items.iter()
    }
}
