// Association-list stand-ins for std::collections::{HashMap, HashSet}, used ONLY in the copy of
// the tree that the Kani compiler sees (cfg(kani)).  std's HashMap needs OS randomness
// (`getrandom`, unsupported by Kani) and SipHash over String keys does not terminate in CBMC.
// Same observable results for get / insert / contains_key / contains / remove / clear / iter;
// iteration order (insertion order here) is outside every claim.
#![allow(dead_code)]
use std::borrow::Borrow;

pub struct HashMap<K, V> {
    pub items: Vec<(K, V)>,
}
impl<K, V> Default for HashMap<K, V> {
    fn default() -> Self {
        HashMap { items: Vec::new() }
    }
}
impl<K: PartialEq, V> HashMap<K, V> {
    pub fn new() -> Self {
        HashMap { items: Vec::new() }
    }
    pub fn get<Q: ?Sized + PartialEq>(&self, k: &Q) -> Option<&V>
    where
        K: Borrow<Q>,
    {
        let mut i = 0;
        while i < self.items.len() {
            if self.items[i].0.borrow() == k {
                return Some(&self.items[i].1);
            }
            i += 1;
        }
        None
    }
    pub fn contains_key<Q: ?Sized + PartialEq>(&self, k: &Q) -> bool
    where
        K: Borrow<Q>,
    {
        self.get(k).is_some()
    }
    pub fn insert(&mut self, k: K, v: V) -> Option<V> {
        let mut i = 0;
        while i < self.items.len() {
            if self.items[i].0 == k {
                let old = std::mem::replace(&mut self.items[i].1, v);
                return Some(old);
            }
            i += 1;
        }
        self.items.push((k, v));
        None
    }
    pub fn remove<Q: ?Sized + PartialEq>(&mut self, k: &Q) -> Option<V>
    where
        K: Borrow<Q>,
    {
        let mut i = 0;
        while i < self.items.len() {
            if self.items[i].0.borrow() == k {
                return Some(self.items.remove(i).1);
            }
            i += 1;
        }
        None
    }
    pub fn clear(&mut self) {
        self.items.clear();
    }
    pub fn len(&self) -> usize {
        self.items.len()
    }
    pub fn is_empty(&self) -> bool {
        self.items.is_empty()
    }
    pub fn iter(&self) -> impl Iterator<Item = (&K, &V)> {
        self.items.iter().map(|(k, v)| (k, v))
    }
}

pub struct HashSet<K> {
    pub items: Vec<K>,
}
impl<K> Default for HashSet<K> {
    fn default() -> Self {
        HashSet { items: Vec::new() }
    }
}
impl<K: PartialEq> HashSet<K> {
    pub fn new() -> Self {
        HashSet { items: Vec::new() }
    }
    pub fn contains<Q: ?Sized + PartialEq>(&self, k: &Q) -> bool
    where
        K: Borrow<Q>,
    {
        let mut i = 0;
        while i < self.items.len() {
            if self.items[i].borrow() == k {
                return true;
            }
            i += 1;
        }
        false
    }
    pub fn insert(&mut self, k: K) -> bool {
        if self.items.iter().any(|x| *x == k) {
            return false;
        }
        self.items.push(k);
        true
    }
    pub fn remove<Q: ?Sized + PartialEq>(&mut self, k: &Q) -> bool
    where
        K: Borrow<Q>,
    {
        let mut i = 0;
        while i < self.items.len() {
            if self.items[i].borrow() == k {
                self.items.remove(i);
                return true;
            }
            i += 1;
        }
        false
    }
    pub fn clear(&mut self) {
        self.items.clear();
    }
    pub fn len(&self) -> usize {
        self.items.len()
    }
    pub fn iter(&self) -> std::slice::Iter<'_, K> {
        self.items.iter()
    }
}
