// C04: every operand form resolves to the architecturally correct location.
use crate::{vassert, vassert_kf, vassume, vcell, vcover, vsym};

/// all ten memory_addr productions x {BX,BP} x {SI,DI} x {ES,DS,SS,CS} x displacement x state
#[cfg_attr(kani, kani::proof)]
pub fn c04_memory_addr() {
    let mut vm = mk_vm();
    let mut ctx = mk_ctx();
    let pre = regs(&vm);
    let (m, d) = sym_mem(&mut vm, &mut ctx);
    let (exp, off) = expected_mem(&pre, &d);
    vassert!("C04.memory_addr.address", m == exp);
    vassert!("C04.memory_addr.in_range", m < MBU);
    vassert!("C04.memory_addr.regs_untouched", regs(&vm) == pre);
    // reachability of the interesting corners
    let base = r16(&pre, NT_base_reg_val_ID[d.base as usize]);
    vcover!("C04.memory_addr.cover.offset_wraps_up", d.shape == 2 && d.disp > 0 && (base as u32 + d.disp as u32) > 0xFFFF);
    vcover!("C04.memory_addr.cover.offset_wraps_down", d.shape == 2 && d.disp < 0 && (base as i32 + d.disp as i32) < 0);
    vcover!("C04.memory_addr.cover.physical_wraps", d.shape == 4 && d.ovr && (r16(&pre, NT_seg_reg_ID[d.seg as usize]) as usize * 16 + off as usize) >= MBU);
    vcover!("C04.memory_addr.cover.bp_default_ss", d.shape == 4 && !d.ovr && NT_base_reg_val_ID[d.base as usize] == ID_bp && pre.ss != pre.ds);
    vcover!("C04.memory_addr.cover.override_cs", d.shape == 3 && d.ovr && NT_seg_reg_ID[d.seg as usize] == ID_cs);
    #[cfg(not(kani))]
    {
        // glue: the real parser on "mov byte <operand>, 90" must write exactly that cell
        let snap = snapshot(&vm);
        let mut after = VM::new();
        set_regs(&mut after, &snap.regs);
        after.mem.copy_from_slice(&snap.mem);
        after.mem[exp] = 90;
        glue("c04_memory_addr", &snap, &after, &mut ctx, &format!("mov byte {}, 90", render_mem(&d)), Some("NEXT".to_string()));
    }
    done_ctx(ctx);
    done(vm);
}

fn ctx_with_label(kind_data: bool, map: usize) -> Context {
    let mut ctx = mk_ctx();
    let t = if kind_data { LabelType::DATA } else { LabelType::CODE };
    ctx.label_map.insert("v".to_owned(), crate::util::preprocessor_util::Label::new(t, 0, map));
    ctx
}

/// data labels: address = (DS*16 + recorded offset) mod 2^20, for both widths
#[cfg_attr(kani, kani::proof)]
#[cfg_attr(kani, kani::stub(alloc::fmt::format, crate::verif_rt::fmt_stub))]
#[cfg_attr(kani, kani::unwind(5))] // String / Vec loops over the 1-character label name
pub fn c04_labels() {
    let mut vm = mk_vm();
    vsym!(w_map: u16);
    vsym!(w_word: bool);
    let mut ctx = ctx_with_label(true, w_map as usize);
    let pre = regs(&vm);
    let r = if w_word {
        p_word_label__T_word__name_string(CUR, &mut vm, &mut ctx, "", (0, "word", 0), (0, "v".to_owned(), 0))
    } else {
        p_byte_label__T_byte__name_string(CUR, &mut vm, &mut ctx, "", (0, "byte", 0), (0, "v".to_owned(), 0))
    };
    vassert!("C04.label.data_label_accepted", r.is_ok());
    if let Ok(m) = r {
        vassert!("C04.label.address", m == phys(pre.ds, w_map));
    }
    vassert!("C04.label.regs_untouched", regs(&vm) == pre);
    vcover!("C04.label.cover.wraps", (pre.ds as usize * 16 + w_map as usize) >= MBU);
    done_ctx(ctx);
    done(vm);
}

/// byte registers alias exactly their half of the 16-bit register
#[cfg_attr(kani, kani::proof)]
pub fn c04_byte_reg_alias() {
    let mut vm = mk_vm();
    let mut ctx = mk_ctx();
    vsym!(w_sel: u8);
    vsym!(w_val: u8);
    vassume!(w_sel < NT_byte_reg_N);
    let pre = regs(&vm);
    let r = nt_byte_reg(w_sel, CUR, &mut vm, &mut ctx);
    let id = NT_byte_reg_ID[w_sel as usize];
    vassert!("C04.byte_reg.read", get_byte_reg(&vm, r) == r8(&pre, id));
    set_byte_reg(&mut vm, r, w_val);
    let mut exp = pre;
    set_r8(&mut exp, id, w_val);
    vassert!("C04.byte_reg.write_only_its_half", regs(&vm) == exp);
    vassert!("C04.byte_reg.read_back", get_byte_reg(&vm, r) == w_val);
    done_ctx(ctx);
    done(vm);
}

/// word registers: read/write the named register only
#[cfg_attr(kani, kani::proof)]
pub fn c04_word_reg() {
    let mut vm = mk_vm();
    let mut ctx = mk_ctx();
    vsym!(w_sel: u8);
    vsym!(w_seg: bool);
    vsym!(w_val: u16);
    let pre = regs(&vm);
    let (r, id) = if w_seg {
        vassume!(w_sel < NT_seg_reg_N);
        (nt_seg_reg(w_sel, CUR, &mut vm, &mut ctx), NT_seg_reg_ID[w_sel as usize])
    } else {
        vassume!(w_sel < NT_word_reg_N);
        (nt_word_reg(w_sel, CUR, &mut vm, &mut ctx), NT_word_reg_ID[w_sel as usize])
    };
    vassert!("C04.word_reg.read", get_word_reg_val(&vm, r) == r16(&pre, id));
    set_word_reg_val(&mut vm, r, w_val);
    let mut exp = pre;
    set_r16(&mut exp, id, w_val);
    vassert!("C04.word_reg.write_only_it", regs(&vm) == exp);
    done_ctx(ctx);
    done(vm);
}

/// LEA loads the operand's 16-bit offset; no flag, no other register, no memory cell changes
#[cfg_attr(kani, kani::proof)]
pub fn c04_lea_mem() {
    let mut vm = mk_vm();
    let mut ctx = mk_ctx();
    vsym!(w_dst: u8);
    vsym!(w_p: usize);
    vassume!(w_dst < NT_word_reg_N && w_p < MBU);
    vcell!(vm, w_p, w_pv);
    let pre = regs(&vm);
    #[cfg(not(kani))]
    let snap = snapshot(&vm);
    let r = nt_word_reg(w_dst, CUR, &mut vm, &mut ctx);
    let (m, d) = sym_mem(&mut vm, &mut ctx);
    p_lea__T_lea__word_reg__COMMA__T_word__memory_addr(CUR, &mut vm, &mut ctx, "", (0, "lea", 0), (0, r, 0), (0, ",", 0), (0, "word", 0), (0, m, 0));
    let (_, off) = expected_mem(&pre, &d);
    let mut exp = pre;
    set_r16(&mut exp, NT_word_reg_ID[w_dst as usize], off);
    // Known finding: LEA subtracts DS*16 from the physical address whatever segment the operand
    // used (pinned by the repository test test_lea: "lea ax, word [bp]" with SS != DS).
    let uses_bp = match d.shape { 1 => NT_base_index_reg_val_ID[d.reg as usize] == ID_bp, 2 | 4 => NT_base_reg_val_ID[d.base as usize] == ID_bp, _ => false };
    let seg = if d.ovr { r16(&pre, NT_seg_reg_ID[d.seg as usize]) } else if uses_bp { pre.ss } else { pre.ds };
    let region = (seg.wrapping_sub(pre.ds) & 0x0FFF) != 0;
    vassert_kf!("C04.lea.offset", regs(&vm) == exp, KF_C04_lea_nonDS, region);
    vassert!("C04.lea.flags", regs(&vm).flag == pre.flag);
    vassert!("C04.lea.mem", vm.mem[w_p] == w_pv);
    vcover!("C04.lea.cover.outside_region_override", d.ovr && !region && seg != pre.ds);
    #[cfg(not(kani))]
    glue("c04_lea_mem", &snap, &vm, &mut ctx, &format!("lea {}, word {}", NT_word_reg_TEXT[w_dst as usize], render_mem(&d)), Some("NEXT".to_string()));
    done_ctx(ctx);
    done(vm);
}

#[cfg_attr(kani, kani::proof)]
#[cfg_attr(kani, kani::stub(alloc::fmt::format, crate::verif_rt::fmt_stub))]
#[cfg_attr(kani, kani::unwind(5))]
pub fn c04_lea_label() {
    let mut vm = mk_vm();
    vsym!(w_map: u16);
    vsym!(w_dst: u8);
    vassume!(w_dst < NT_word_reg_N);
    let mut ctx = ctx_with_label(true, w_map as usize);
    let pre = regs(&vm);
    let r = nt_word_reg(w_dst, CUR, &mut vm, &mut ctx);
    let m = p_word_label__T_word__name_string(CUR, &mut vm, &mut ctx, "", (0, "word", 0), (0, "v".to_owned(), 0));
    vassert!("C04.lea_label.accepted", m.is_ok());
    if let Ok(m) = m {
        p_lea__T_lea__word_reg__COMMA__word_label(CUR, &mut vm, &mut ctx, "", (0, "lea", 0), (0, r, 0), (0, ",", 0), (0, m, 0));
        let mut exp = pre;
        set_r16(&mut exp, NT_word_reg_ID[w_dst as usize], w_map);
        vassert!("C04.lea_label.offset", regs(&vm) == exp);
    }
    done_ctx(ctx);
    done(vm);
}

#[cfg_attr(kani, kani::proof)]
pub fn c04_twin_reach() {
    let mut vm = mk_vm();
    let mut ctx = mk_ctx();
    let (m, d) = sym_mem(&mut vm, &mut ctx);
    vassume!(d.shape == 4 && d.ovr);
    vassert!("C04.twin.must_fail", m != 0x12345);
    done_ctx(ctx);
    done(vm);
}

pub const TABLE: &[(&str, fn())] = &[
    ("c04_memory_addr", c04_memory_addr),
    ("c04_labels", c04_labels),
    ("c04_byte_reg_alias", c04_byte_reg_alias),
    ("c04_word_reg", c04_word_reg),
    ("c04_lea_mem", c04_lea_mem),
    ("c04_lea_label", c04_lea_label),
    ("c04_twin_reach", c04_twin_reach),
];
