// C08 (interpreter side of the bookkeeping obligations): CALL pushes the index after itself and
// continues at the procedure's first instruction; RET resumes at the most recently pushed index;
// nested calls return in LIFO order; RET on an empty call stack is a reported error.
use crate::{vassert, vassume, vcover, vsym};

fn ctx_fn(known: bool, pos: usize) -> Context {
    let mut ctx = mk_ctx();
    #[cfg(kani)]
    ctx.fn_map.items.reserve(2);
    ctx.call_stack.reserve(6);
    if known {
        ctx.fn_map.insert("v".to_owned(), pos);
    }
    ctx
}

#[cfg_attr(kani, kani::proof)]
#[cfg_attr(kani, kani::unwind(6))]
#[cfg_attr(kani, kani::stub(alloc::fmt::format, crate::verif_rt::fmt_stub))]
pub fn c08_call_ret_lifo() {
    let mut vm = mk_vm();
    vsym!(w_known: bool);
    vsym!(w_pos: u16);
    vsym!(w_cur1: u16);
    vsym!(w_cur2: u16);
    vsym!(w_depth0: u8);
    vsym!(w_old: u16);
    let mut ctx = ctx_fn(w_known, w_pos as usize);
    // some frames already on the call stack
    if w_depth0 % 2 == 1 {
        ctx.call_stack.push(w_old as usize);
    }
    let d0 = ctx.call_stack.len();
    let pre = regs(&vm);
    let name = || (0usize, "v".to_owned(), 0usize);
    let r1 = p_call__T_call__name_string(w_cur1 as usize, &mut vm, &mut ctx, "", (0, "call", 0), name());
    if w_known {
        vassert!("C08.call.continues_at_procedure", matches!(r1, Ok(State::JMP(p)) if p == w_pos as usize));
        vassert!("C08.call.pushes_return_index", ctx.call_stack.len() == d0 + 1 && ctx.call_stack[d0] == w_cur1 as usize + 1);
        let r2 = p_call__T_call__name_string(w_cur2 as usize, &mut vm, &mut ctx, "", (0, "call", 0), name());
        let r3 = p_ret__T_ret(7, &mut vm, &mut ctx, "", (0, "ret", 0));
        vassert!("C08.ret.innermost_first", matches!(r3, Ok(State::JMP(p)) if p == w_cur2 as usize + 1));
        let r4 = p_ret__T_ret(9, &mut vm, &mut ctx, "", (0, "ret", 0));
        vassert!("C08.ret.then_outer", matches!(r4, Ok(State::JMP(p)) if p == w_cur1 as usize + 1));
        vassert!("C08.ret.stack_restored", ctx.call_stack.len() == d0);
        std::mem::forget((r2, r3, r4));
    } else {
        vassert!("C08.call.unknown_procedure_is_error", r1.is_err());
        vassert!("C08.call.stack_unchanged_on_error", ctx.call_stack.len() == d0);
    }
    vassert!("C08.call_ret.machine_untouched", regs(&vm) == pre);
    std::mem::forget(r1);
    done_ctx(ctx);
    done(vm);
}

#[cfg_attr(kani, kani::proof)]
#[cfg_attr(kani, kani::unwind(6))]
#[cfg_attr(kani, kani::stub(alloc::fmt::format, crate::verif_rt::fmt_stub))]
pub fn c08_ret_without_call() {
    let mut vm = mk_vm();
    let mut ctx = ctx_fn(false, 0);
    let r = p_ret__T_ret(3, &mut vm, &mut ctx, "", (0, "ret", 0));
    vassert!("C08.ret.empty_stack_is_error_not_crash", r.is_err());
    std::mem::forget(r);
    done_ctx(ctx);
    done(vm);
}

pub const TABLE: &[(&str, fn())] = &[
    ("c08_call_ret_lifo", c08_call_ret_lifo),
    ("c08_ret_without_call", c08_ret_without_call),
];
