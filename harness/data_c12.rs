// C12 (loader side): every data-parser production writes exactly the cells
// (DS*16 + counter + i) mod 2^20, 0 <= i < size, with the specified bytes, leaves every other
// byte and every register alone, and advances the counter by the size.
use crate::{vassert, vassume, vcell, vcover, vsym};

const SYNTH: [&str; 4] = ["\"\"", "\"A\"", "\"zQ\"", "\"a b\""];

fn run(bound: u16, form: u8, strsel: u8) {
    let mut vm = mk_vm();
    vsym!(w_ctr: usize);
    vsym!(w_n: u16);
    vsym!(w_vb: i8);
    vsym!(w_vw: i16);
    vsym!(w_p: usize);
    // one production per harness (form is concrete): a symbolic choice among all nine with their
    // loops exhausts memory during symbolic execution (probe: out of memory after 380 s)
    vassume!(w_ctr < 0x20000 && w_n <= bound && w_p < MBU);
    let (w_form, w_str) = (form, strsel);
    vcell!(vm, w_p, w_pv);
    let pre = regs(&vm);
    let mut ctr: usize = w_ctr;
    let q = SYNTH[w_str as usize];
    let body = &q.as_bytes()[1..q.len() - 1];
    let (l, r, c) = ((0usize, "[", 0usize), (0usize, "]", 0usize), (0usize, ",", 0usize));
    match w_form {
        0 => p_set__T_set__u_word_num(&mut vm, &mut ctr, "", (0, "set", 0), (0, w_n, 0)),
        1 => p_db__T_db__s_byte_num(&mut vm, &mut ctr, "", (0, "db", 0), (0, w_vb, 0)),
        2 => p_db__T_db__LB__u_word_num__RB(&mut vm, &mut ctr, "", (0, "db", 0), l, (0, w_n, 0), r),
        3 => p_db__T_db__LB__s_byte_num__COMMA__u_word_num__RB(&mut vm, &mut ctr, "", (0, "db", 0), l, (0, w_vb, 0), c, (0, w_n, 0), r),
        4 => p_db__T_db__RE_ASTR(&mut vm, &mut ctr, "", (0, "db", 0), (0, q, 0)),
        5 => p_dw__T_dw__s_word_num(&mut vm, &mut ctr, "", (0, "dw", 0), (0, w_vw, 0)),
        6 => p_dw__T_dw__LB__u_word_num__RB(&mut vm, &mut ctr, "", (0, "dw", 0), l, (0, w_n, 0), r),
        7 => p_dw__T_dw__LB__s_word_num__COMMA__u_word_num__RB(&mut vm, &mut ctr, "", (0, "dw", 0), l, (0, w_vw, 0), c, (0, w_n, 0), r),
        _ => p_dw__T_dw__RE_ASTR(&mut vm, &mut ctr, "", (0, "dw", 0), (0, q, 0)),
    }
    let post = regs(&vm);
    if w_form == 0 {
        let mut er = pre;
        er.ds = w_n;
        vassert!("C12.set.ds_and_frame", post == er);
        vassert!("C12.set.counter_reset", ctr == 0);
        vassert!("C12.set.memory_untouched", vm.mem[w_p] == w_pv);
    } else {
        let n = w_n as usize;
        let size: usize = match w_form {
            1 => 1,
            2 | 3 => n,
            4 => body.len(),
            5 => 2,
            6 | 7 => 2 * n,
            _ => 2 * body.len(),
        };
        let base = (pre.ds as usize * 16 + w_ctr) % MBU;
        let i = (w_p + MBU - base) % MBU; // index of the probe cell inside the definition, if < size
        let expect: u8 = if i < size {
            match w_form {
                1 | 3 => w_vb as u8,
                2 | 6 => 0,
                4 => body[i % 4],
                5 | 7 => if i % 2 == 0 { w_vw as u8 } else { (w_vw as u16 >> 8) as u8 },
                _ => if i % 2 == 0 { body[(i / 2) % 4] } else { 0 },
            }
        } else {
            w_pv
        };
        vassert!("C12.define.registers_untouched", post == pre);
        vassert!("C12.define.counter_advances_by_size", ctr == w_ctr + size);
        vassert!("C12.define.bytes_and_frame", vm.mem[w_p] == expect);
        vcover!("C12.define.cover.probe_inside_array", form != 7 || (w_n == bound && i == 2 * n - 1));
        vcover!("C12.define.cover.wraps_1mb", form != 3 || (base + 1 == MBU && size >= 2 && i == 1));
        vcover!("C12.define.cover.dw_string_high_zero", !(form == 8 && strsel == 2) || i == 3);
    }
    done(vm);
}

#[cfg_attr(kani, kani::proof)]
#[cfg_attr(kani, kani::unwind(10))]
pub fn c12_loader_set() {
    run(4, 0, 0);
}

#[cfg_attr(kani, kani::proof)]
#[cfg_attr(kani, kani::unwind(10))]
pub fn c12_loader_db_value() {
    run(4, 1, 0);
}

#[cfg_attr(kani, kani::proof)]
#[cfg_attr(kani, kani::unwind(10))]
pub fn c12_loader_db_zeros__q() {
    run(4, 2, 0);
}

#[cfg_attr(kani, kani::proof)]
#[cfg_attr(kani, kani::unwind(34))]
pub fn c12_loader_db_zeros__t() {
    run(16, 2, 0);
}

#[cfg_attr(kani, kani::proof)]
#[cfg_attr(kani, kani::unwind(10))]
pub fn c12_loader_db_fill__q() {
    run(4, 3, 0);
}

#[cfg_attr(kani, kani::proof)]
#[cfg_attr(kani, kani::unwind(34))]
pub fn c12_loader_db_fill__t() {
    run(16, 3, 0);
}

#[cfg_attr(kani, kani::proof)]
#[cfg_attr(kani, kani::unwind(10))]
pub fn c12_loader_dw_value() {
    run(4, 5, 0);
}

#[cfg_attr(kani, kani::proof)]
#[cfg_attr(kani, kani::unwind(10))]
pub fn c12_loader_dw_zeros__q() {
    run(4, 6, 0);
}

#[cfg_attr(kani, kani::proof)]
#[cfg_attr(kani, kani::unwind(34))]
pub fn c12_loader_dw_zeros__t() {
    run(16, 6, 0);
}

#[cfg_attr(kani, kani::proof)]
#[cfg_attr(kani, kani::unwind(10))]
pub fn c12_loader_dw_fill__q() {
    run(4, 7, 0);
}

#[cfg_attr(kani, kani::proof)]
#[cfg_attr(kani, kani::unwind(34))]
pub fn c12_loader_dw_fill__t() {
    run(16, 7, 0);
}

#[cfg_attr(kani, kani::proof)]
#[cfg_attr(kani, kani::unwind(10))]
pub fn c12_loader_db_string_0() {
    run(0, 4, 0);
}

#[cfg_attr(kani, kani::proof)]
#[cfg_attr(kani, kani::unwind(10))]
pub fn c12_loader_db_string_1() {
    run(0, 4, 1);
}

#[cfg_attr(kani, kani::proof)]
#[cfg_attr(kani, kani::unwind(10))]
pub fn c12_loader_db_string_2() {
    run(0, 4, 2);
}

#[cfg_attr(kani, kani::proof)]
#[cfg_attr(kani, kani::unwind(10))]
pub fn c12_loader_db_string_3() {
    run(0, 4, 3);
}

#[cfg_attr(kani, kani::proof)]
#[cfg_attr(kani, kani::unwind(10))]
pub fn c12_loader_dw_string_0() {
    run(0, 8, 0);
}

#[cfg_attr(kani, kani::proof)]
#[cfg_attr(kani, kani::unwind(10))]
pub fn c12_loader_dw_string_1() {
    run(0, 8, 1);
}

#[cfg_attr(kani, kani::proof)]
#[cfg_attr(kani, kani::unwind(10))]
pub fn c12_loader_dw_string_2() {
    run(0, 8, 2);
}

#[cfg_attr(kani, kani::proof)]
#[cfg_attr(kani, kani::unwind(10))]
pub fn c12_loader_dw_string_3() {
    run(0, 8, 3);
}

#[cfg_attr(kani, kani::proof)]
#[cfg_attr(kani, kani::unwind(10))]
pub fn c12_twin_reach() {
    let mut vm = mk_vm();
    let mut ctr: usize = 5;
    p_dw__T_dw__s_word_num(&mut vm, &mut ctr, "", (0, "dw", 0), (0, 7, 0));
    vassert!("C12.twin.must_fail", ctr == 5);
    done(vm);
}

pub const TABLE: &[(&str, fn())] = &[
    ("c12_loader_set", c12_loader_set),
    ("c12_loader_db_value", c12_loader_db_value),
    ("c12_loader_db_zeros__q", c12_loader_db_zeros__q),
    ("c12_loader_db_zeros__t", c12_loader_db_zeros__t),
    ("c12_loader_db_fill__q", c12_loader_db_fill__q),
    ("c12_loader_db_fill__t", c12_loader_db_fill__t),
    ("c12_loader_dw_value", c12_loader_dw_value),
    ("c12_loader_dw_zeros__q", c12_loader_dw_zeros__q),
    ("c12_loader_dw_zeros__t", c12_loader_dw_zeros__t),
    ("c12_loader_dw_fill__q", c12_loader_dw_fill__q),
    ("c12_loader_dw_fill__t", c12_loader_dw_fill__t),
    ("c12_loader_db_string_0", c12_loader_db_string_0),
    ("c12_loader_db_string_1", c12_loader_db_string_1),
    ("c12_loader_db_string_2", c12_loader_db_string_2),
    ("c12_loader_db_string_3", c12_loader_db_string_3),
    ("c12_loader_dw_string_0", c12_loader_dw_string_0),
    ("c12_loader_dw_string_1", c12_loader_dw_string_1),
    ("c12_loader_dw_string_2", c12_loader_dw_string_2),
    ("c12_loader_dw_string_3", c12_loader_dw_string_3),
    ("c12_twin_reach", c12_twin_reach),
];
