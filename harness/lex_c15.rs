// C15 / C16: the hand-written position arithmetic that turns a character index into
// (line number, start of line, end of line) -- LexerHelper::{get_newline_before, get_bounds} and,
// composed the way driver/error_helper.rs::get_err_pos composes them, the triple reported to users.
// The helper's private newline list is built directly (child module): an arbitrary sorted list of
// up to 4 newline positions inside a text of arbitrary length.
use crate::{vassert, vassert_kf, vassume, vcover, vsym};

fn helper_with(n: usize, p: [usize; 4]) -> LexerHelper {
    let mut v: Vec<usize> = Vec::with_capacity(4);
    let mut i = 0;
    while i < n {
        v.push(p[i]);
        i += 1;
    }
    LexerHelper { temp_line: 0, newline_list: v }
}

/// what driver/error_helper.rs::get_err_pos computes (it lives in the binary crate; same two calls)
fn err_pos(l: &LexerHelper, pos: usize) -> (usize, usize, usize) {
    let (line, pos) = l.get_newline_before(pos);
    let (start, end) = l.get_bounds(pos);
    (line + 1, start, end)
}

fn scenario() -> (LexerHelper, usize, [usize; 4], usize, usize) {
    vsym!(w_n: usize);
    vsym!(w_len: usize);
    vsym!(w_p0: usize);
    vsym!(w_p1: usize);
    vsym!(w_p2: usize);
    vsym!(w_p3: usize);
    vsym!(w_pos: usize);
    let n = w_n % 5;
    let len = w_len % 4096;
    let p = [w_p0 % 4096, w_p1 % 4096, w_p2 % 4096, w_p3 % 4096];
    (helper_with(n, p), n, p, len, w_pos % 4097)
}

fn valid(n: usize, p: &[usize; 4], len: usize, pos: usize) -> bool {
    // newline positions strictly increasing and inside the text; the reported position is inside
    // the text or one past its end (LALRPOP reports end of input as start = len)
    let mut ok = pos <= len;
    let mut i = 0;
    while i < n {
        ok = ok && p[i] < len && (i == 0 || p[i - 1] < p[i]);
        i += 1;
    }
    ok
}

/// C15: no position makes the helpers abort (index out of bounds, subtraction overflow)
#[cfg_attr(kani, kani::proof)]
#[cfg_attr(kani, kani::unwind(6))]
pub fn c15_positions_total() {
    let (l, n, p, len, pos) = scenario();
    vassume!(valid(n, &p, len, pos));
    // Known finding: a text without any newline makes both helpers index an empty list
    // (driver: a one-line source file with a syntax error aborts instead of printing a diagnostic)
    if !(kf_on(crate::verif_gen::KF_C15_no_newline) && n == 0) {
        let (line, start, end) = err_pos(&l, pos);
        vassert!("C15.err_pos.slice_bounds", start <= end && end <= len);
    }
    vcover!("C15.err_pos.cover.position_after_last_newline", n == 2 && pos > p[1]);
    vcover!("C15.err_pos.cover.no_newline", n == 0);
    std::mem::forget(l);
}

/// C16: the triple names the line that contains the position
#[cfg_attr(kani, kani::proof)]
#[cfg_attr(kani, kani::unwind(6))]
pub fn c16_line_of_position() {
    let (l, n, p, len, pos) = scenario();
    vassume!(valid(n, &p, len, pos) && n >= 1 && pos < len);
    let (line, start, end) = err_pos(&l, pos);
    // reference: the line containing `pos`
    let mut before = 0usize; // number of newlines strictly before pos
    let mut i = 0;
    while i < n {
        if p[i] < pos {
            before += 1;
        }
        i += 1;
    }
    let exp_start = if before == 0 { 0 } else { p[before - 1] + 1 };
    let exp_end = if before < n { p[before] } else { len };
    // Known findings (recorded, not repaired -- see known_findings.json):
    //  * a position on the last line of a file WITHOUT trailing newline is attributed to the
    //    previous line (the helper can only answer with an existing newline);
    //  * a position exactly ON a newline character is attributed to the following line.
    let last_line_without_newline = before == n;
    let on_newline = before < n && p[before] == pos;
    let region = last_line_without_newline || on_newline;
    vassert_kf!("C16.err_pos.line_number", line == before + 1, KF_C16_lastline_and_newline, region);
    vassert_kf!("C16.err_pos.line_start", start == exp_start, KF_C16_lastline_and_newline, region);
    vassert_kf!("C16.err_pos.line_end", end == exp_end, KF_C16_lastline_and_newline, region);
    vcover!("C16.err_pos.cover.middle_line", n == 3 && before == 1 && !region);
    vcover!("C16.err_pos.cover.first_line", before == 0 && !region);
    std::mem::forget(l);
}

/// the two public helpers themselves are total for every position of a text with at least one newline
#[cfg_attr(kani, kani::proof)]
#[cfg_attr(kani, kani::unwind(6))]
pub fn c15_helpers_total() {
    let (l, n, p, len, pos) = scenario();
    vassume!(valid(n, &p, len, pos) && n >= 1);
    let (line, nl) = l.get_newline_before(pos);
    let (start, end) = l.get_bounds(pos);
    vassert!("C15.helpers.results_inside_text", line <= n && nl < len && start <= end && end < len);
    std::mem::forget(l);
}

#[cfg_attr(kani, kani::proof)]
#[cfg_attr(kani, kani::unwind(6))]
pub fn c15_twin_reach() {
    let (l, n, p, len, pos) = scenario();
    vassume!(valid(n, &p, len, pos) && n == 2);
    let (line, _, _) = err_pos(&l, pos);
    vassert!("C15.twin.must_fail", line == 1);
    std::mem::forget(l);
}


// LexerHelper::new itself is cut: even on 3 symbolic characters the growing Vec + chars() loop runs
// CBMC out of memory during propositional reduction (probe, 14 GB); the newline list is built directly.

pub const TABLE: &[(&str, fn())] = &[
    ("c15_positions_total", c15_positions_total),
    ("c16_line_of_position", c16_line_of_position),
    ("c15_helpers_total", c15_helpers_total),
    ("c15_twin_reach", c15_twin_reach),
];
