// C19 (machine clauses): fresh machines, isolation between machines, no hidden state.
use crate::{vassert, vassume, vcell, vcover, vsym};

/// VM::new(): every register 0 except FLAGS = F000h and CS = FFFFh; every memory byte 0
#[cfg_attr(kani, kani::proof)]
pub fn c19_vm_new() {
    let vm = VM::new();
    vsym!(w_p: usize);
    vassume!(w_p < MBU);
    let r = regs(&vm);
    let exp = Regs { flag: 0xF000, ax: 0, bx: 0, cx: 0, dx: 0, sp: 0, bp: 0, si: 0, di: 0, ip: 0, cs: 0xFFFF, ds: 0, ss: 0, es: 0 };
    vassert!("C19.new.registers", r == exp);
    vassert!("C19.new.memory_zero", vm.mem[w_p] == 0);
    done(vm);
}

/// a representative instruction of every class, chosen symbolically, through the real actions
fn some_instruction(sel: u8, vm: &mut VM, ctx: &mut Context) {
    vsym!(w_i_m: usize);
    vsym!(w_i_r: u8);
    vsym!(w_i_n: i16);
    let m = w_i_m % MBU;
    let r = nt_word_reg(w_i_r % NT_word_reg_N, CUR, vm, ctx);
    match sel {
        0 => p_mov__T_mov__T_word__memory_addr__COMMA__word_reg(CUR, vm, ctx, "", (0, "mov", 0), KW, (0, m, 0), C, (0, r, 0)),
        1 => p_push__T_push__T_word__memory_addr(CUR, vm, ctx, "", (0, "push", 0), KW, (0, m, 0)),
        2 => {
            let f = nt_word_binary_arithmetic(w_i_r % NT_word_binary_arithmetic_N, CUR, vm, ctx);
            p_binary_arithmetic__word_binary_arithmetic__T_word__memory_addr__COMMA__s_word_num(CUR, vm, ctx, "", (0, f, 0), KW, (0, m, 0), C, (0, w_i_n, 0))
        }
        3 => {
            let _ = p_string__T_rep__string_instructions(CUR, vm, ctx, "", (0, "rep", 0), (0, movs_word as StringOp, 0));
        }
        4 => p_singleton_data_transfer__T_popf(CUR, vm, ctx, "", (0, "popf", 0)),
        _ => {
            let f = nt_word_unary_arithmetic(w_i_r % NT_word_unary_arithmetic_N, CUR, vm, ctx);
            let _ = p_unary_arithmetic__word_unary_arithmetic__word_reg(CUR, vm, ctx, "", (0, f, 0), (0, r, 0));
        }
    }
}

/// executing instructions on one machine never affects another
#[cfg_attr(kani, kani::proof)]
pub fn c19_isolation() {
    let mut vm1 = mk_vm();
    let mut ctx = mk_ctx();
    vsym!(w_sel: u8);
    vsym!(w_p: usize);
    vassume!(w_sel < 6 && w_p < MBU);
    // the second machine: arbitrary as well
    vsym!(w_o_ax: u16);
    vsym!(w_o_flag: u16);
    vsym!(w_o_sp: u16);
    let mut vm2 = vm_like(&Regs { flag: w_o_flag, ax: w_o_ax, bx: 1, cx: 2, dx: 3, sp: w_o_sp, bp: 4, si: 5, di: 6, ip: 7, cs: 8, ds: 9, ss: 10, es: 11 });
    vcell!(vm2, w_p, w_pv2);
    let before = regs(&vm2);
    some_instruction(w_sel, &mut vm1, &mut ctx);
    vassert!("C19.isolation.other_registers", regs(&vm2) == before);
    vassert!("C19.isolation.other_memory", vm2.mem[w_p] == w_pv2);
    done(vm2);
    done_ctx(ctx);
    done(vm1);
}

/// no hidden state: the same register-only instruction from equal states gives equal states
#[cfg_attr(kani, kani::proof)]
pub fn c19_determinism() {
    let mut vm1 = mk_vm();
    let mut ctx1 = mk_ctx();
    let mut ctx2 = mk_ctx();
    let start = regs(&vm1);
    let mut vm2 = vm_like(&start);
    vsym!(w_op: u8);
    vsym!(w_d: u8);
    vsym!(w_s: u8);
    vassume!(w_op < NT_word_binary_arithmetic_N && w_d < NT_word_reg_N && w_s < NT_word_reg_N);
    let f1 = nt_word_binary_arithmetic(w_op, CUR, &mut vm1, &mut ctx1);
    let d1 = nt_word_reg(w_d, CUR, &mut vm1, &mut ctx1);
    let s1 = nt_word_reg(w_s, CUR, &mut vm1, &mut ctx1);
    p_binary_arithmetic__word_binary_arithmetic__word_reg__COMMA__word_reg(CUR, &mut vm1, &mut ctx1, "", (0, f1, 0), (0, d1, 0), C, (0, s1, 0));
    let f2 = nt_word_binary_arithmetic(w_op, CUR, &mut vm2, &mut ctx2);
    let d2 = nt_word_reg(w_d, CUR, &mut vm2, &mut ctx2);
    let s2 = nt_word_reg(w_s, CUR, &mut vm2, &mut ctx2);
    p_binary_arithmetic__word_binary_arithmetic__word_reg__COMMA__word_reg(CUR, &mut vm2, &mut ctx2, "", (0, f2, 0), (0, d2, 0), C, (0, s2, 0));
    vassert!("C19.determinism.same_result", regs(&vm1) == regs(&vm2));
    done(vm2);
    done_ctx(ctx1);
    done_ctx(ctx2);
    done(vm1);
}

#[cfg_attr(kani, kani::proof)]
pub fn c19_twin_reach() {
    let vm = VM::new();
    vassert!("C19.twin.must_fail", vm.arch.cs == 0);
    done(vm);
}

pub const TABLE: &[(&str, fn())] = &[
    ("c19_vm_new", c19_vm_new),
    ("c19_isolation", c19_isolation),
    ("c19_determinism", c19_determinism),
    ("c19_twin_reach", c19_twin_reach),
];
