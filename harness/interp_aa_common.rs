// Shared helpers of the interpreter B-harnesses (child module of the generated interpreter.rs).
// Operands are built by calling the real leaf / memory_addr actions in the order in which the
// LR parser reduces them (children before parent, left to right).

use crate::{vassert, vassume, vcell, vcover, vsym};

pub const CUR: usize = 7;

pub fn mk_ctx() -> Context {
    Context::default()
}
pub fn done_ctx(c: Context) {
    std::mem::forget(c);
}

// ------------------------------------------------------------------ register model (oracle side)
pub fn r8(r: &Regs, id: u8) -> u8 {
    let w = match id / 2 {
        0 => r.ax,
        1 => r.bx,
        2 => r.cx,
        _ => r.dx,
    };
    if id % 2 == 0 {
        w as u8
    } else {
        (w >> 8) as u8
    }
}
pub fn set_r8(r: &mut Regs, id: u8, v: u8) {
    let w = match id / 2 {
        0 => &mut r.ax,
        1 => &mut r.bx,
        2 => &mut r.cx,
        _ => &mut r.dx,
    };
    if id % 2 == 0 {
        *w = (*w & 0xFF00) | v as u16;
    } else {
        *w = (*w & 0x00FF) | ((v as u16) << 8);
    }
}
pub fn r16(r: &Regs, id: u8) -> u16 {
    match id {
        ID_ax => r.ax,
        ID_bx => r.bx,
        ID_cx => r.cx,
        ID_dx => r.dx,
        ID_sp => r.sp,
        ID_bp => r.bp,
        ID_si => r.si,
        ID_di => r.di,
        ID_es => r.es,
        ID_cs => r.cs,
        ID_ss => r.ss,
        _ => r.ds,
    }
}
pub fn set_r16(r: &mut Regs, id: u8, v: u16) {
    match id {
        ID_ax => r.ax = v,
        ID_bx => r.bx = v,
        ID_cx => r.cx = v,
        ID_dx => r.dx = v,
        ID_sp => r.sp = v,
        ID_bp => r.bp = v,
        ID_si => r.si = v,
        ID_di => r.di = v,
        ID_es => r.es = v,
        ID_cs => r.cs = v,
        ID_ss => r.ss = v,
        _ => r.ds = v,
    }
}

/// a second machine with the same registers and its own arbitrary memory: kernels are evaluated
/// on it to obtain the expected result and flag word of `f(dst, src)`
pub fn vm_like(r: &Regs) -> VM {
    let mut v = mk_vm_shadow();
    set_regs(&mut v, r);
    v
}

#[cfg(kani)]
fn mk_vm_shadow() -> VM {
    unsafe {
        let p = std::alloc::alloc(std::alloc::Layout::new::<[u8; MBU]>()) as *mut [u8; MBU];
        VM { arch: Default::default(), mem: Box::from_raw(p) }
    }
}
#[cfg(not(kani))]
fn mk_vm_shadow() -> VM {
    VM::new()
}

// ------------------------------------------------------------------ memory operands
#[derive(Clone, Copy)]
pub struct MemDesc {
    pub shape: u8,   // 0 direct, 1 register indirect, 2 based, 3 indexed, 4 based indexed
    pub ovr: bool,   // segment override present
    pub seg: u8,     // selector into NT_seg_reg_*
    pub reg: u8,     // shape 1: selector into NT_base_index_reg_val_*
    pub base: u8,    // shapes 2,4: selector into NT_base_reg_val_*
    pub idx: u8,     // shapes 3,4: selector into NT_index_reg_val_*
    pub disp: i16,
    pub direct: u16,
}

/// expected (physical address, 16-bit offset) of the operand, from the statement of C04
pub fn expected_mem(pre: &Regs, d: &MemDesc) -> (usize, u16) {
    let base_id = NT_base_reg_val_ID[d.base as usize];
    let idx_id = NT_index_reg_val_ID[d.idx as usize];
    let reg_id = NT_base_index_reg_val_ID[d.reg as usize];
    let (off, uses_bp): (u16, bool) = match d.shape {
        0 => (d.direct, false),
        1 => (r16(pre, reg_id), reg_id == ID_bp),
        2 => (r16(pre, base_id).wrapping_add(d.disp as u16), base_id == ID_bp),
        3 => (r16(pre, idx_id).wrapping_add(d.disp as u16), false),
        _ => (
            r16(pre, base_id).wrapping_add(r16(pre, idx_id)).wrapping_add(d.disp as u16),
            base_id == ID_bp,
        ),
    };
    let seg = if d.ovr {
        r16(pre, NT_seg_reg_ID[d.seg as usize])
    } else if uses_bp {
        pre.ss
    } else {
        pre.ds
    };
    (phys(seg, off), off)
}

/// builds an arbitrary memory operand through the real actions; returns what the real
/// `memory_addr` production returned, and the description for the oracle / renderer.
/// Selectors are reduced modulo their range, so no assumption is needed.
pub fn sym_mem(vm: &mut VM, ctx: &mut Context) -> (usize, MemDesc) {
    vsym!(w_m_shape: u8);
    vsym!(w_m_ovr: bool);
    vsym!(w_m_seg: u8);
    vsym!(w_m_reg: u8);
    vsym!(w_m_base: u8);
    vsym!(w_m_idx: u8);
    vsym!(w_m_disp: i16);
    vsym!(w_m_direct: u16);
    let d = MemDesc {
        shape: w_m_shape % 5,
        ovr: w_m_ovr,
        seg: w_m_seg % NT_seg_reg_N,
        reg: w_m_reg % NT_base_index_reg_val_N,
        base: w_m_base % NT_base_reg_val_N,
        idx: w_m_idx % NT_index_reg_val_N,
        disp: w_m_disp,
        direct: w_m_direct,
    };
    let m = build_mem(vm, ctx, &d);
    (m, d)
}

pub fn build_mem(vm: &mut VM, ctx: &mut Context, d: &MemDesc) -> usize {
    let i = "";
    let lb = (0usize, "[", 0usize);
    let rb = (0usize, "]", 0usize);
    let cm = (0usize, ",", 0usize);
    let col = (0usize, ":", 0usize);
    if d.ovr {
        let sr = nt_seg_reg(d.seg, CUR, vm, ctx);
        match d.shape {
            0 => p_memory_addr__seg_reg__COLON__LB__u_word_num__RB(CUR, vm, ctx, i, (0, sr, 0), col, lb, (0, d.direct, 0), rb),
            1 => {
                let r = nt_base_index_reg_val(d.reg, CUR, vm, ctx);
                p_memory_addr__seg_reg__COLON__LB__base_index_reg_val__RB(CUR, vm, ctx, i, (0, sr, 0), col, lb, (0, r, 0), rb)
            }
            2 => {
                let r = nt_base_reg_val(d.base, CUR, vm, ctx);
                p_memory_addr__seg_reg__COLON__LB__base_reg_val__COMMA__s_word_num__RB(CUR, vm, ctx, i, (0, sr, 0), col, lb, (0, r, 0), cm, (0, d.disp, 0), rb)
            }
            3 => {
                let r = nt_index_reg_val(d.idx, CUR, vm, ctx);
                p_memory_addr__seg_reg__COLON__LB__index_reg_val__COMMA__s_word_num__RB(CUR, vm, ctx, i, (0, sr, 0), col, lb, (0, r, 0), cm, (0, d.disp, 0), rb)
            }
            _ => {
                let b = nt_base_reg_val(d.base, CUR, vm, ctx);
                let x = nt_index_reg_val(d.idx, CUR, vm, ctx);
                p_memory_addr__seg_reg__COLON__LB__base_reg_val__COMMA__index_reg_val__COMMA__s_word_num__RB(CUR, vm, ctx, i, (0, sr, 0), col, lb, (0, b, 0), cm, (0, x, 0), cm, (0, d.disp, 0), rb)
            }
        }
    } else {
        match d.shape {
            0 => p_memory_addr__LB__u_word_num__RB(CUR, vm, ctx, i, lb, (0, d.direct, 0), rb),
            1 => {
                let r = nt_base_index_reg_addr(d.reg, CUR, vm, ctx);
                p_memory_addr__LB__base_index_reg_addr__RB(CUR, vm, ctx, i, lb, (0, r, 0), rb)
            }
            2 => {
                let r = nt_base_reg_seg_val(d.base, CUR, vm, ctx);
                p_memory_addr__LB__base_reg_seg_val__COMMA__s_word_num__RB(CUR, vm, ctx, i, lb, (0, r, 0), cm, (0, d.disp, 0), rb)
            }
            3 => {
                let r = nt_index_reg_val(d.idx, CUR, vm, ctx);
                p_memory_addr__LB__index_reg_val__COMMA__s_word_num__RB(CUR, vm, ctx, i, lb, (0, r, 0), cm, (0, d.disp, 0), rb)
            }
            _ => {
                let b = nt_base_reg_seg_val(d.base, CUR, vm, ctx);
                let x = nt_index_reg_val(d.idx, CUR, vm, ctx);
                p_memory_addr__LB__base_reg_seg_val__COMMA__index_reg_val__COMMA__s_word_num__RB(CUR, vm, ctx, i, lb, (0, b, 0), cm, (0, x, 0), cm, (0, d.disp, 0), rb)
            }
        }
    }
}

#[cfg(not(kani))]
pub fn render_mem(d: &MemDesc) -> String {
    let seg = if d.ovr { format!("{}:", NT_seg_reg_TEXT[d.seg as usize]) } else { String::new() };
    match d.shape {
        0 => format!("{}[{}]", seg, d.direct),
        1 => format!("{}[{}]", seg, NT_base_index_reg_val_TEXT[d.reg as usize]),
        2 => format!("{}[{},{}]", seg, NT_base_reg_val_TEXT[d.base as usize], d.disp),
        3 => format!("{}[{},{}]", seg, NT_index_reg_val_TEXT[d.idx as usize], d.disp),
        _ => format!("{}[{},{},{}]", seg, NT_base_reg_val_TEXT[d.base as usize], NT_index_reg_val_TEXT[d.idx as usize], d.disp),
    }
}

// ------------------------------------------------------------------ glue validation (native only)
// The solver decides what the *actions* do; which action fires for which text is the LALRPOP
// driver's job.  Natively every B-harness renders its symbolic choice as an instruction line,
// runs the real parser on a copy of the pre-state and requires the same final machine.
#[cfg(not(kani))]
pub struct Pre {
    pub regs: Regs,
    pub mem: Vec<u8>,
}
#[cfg(not(kani))]
pub fn snapshot(vm: &VM) -> Pre {
    Pre { regs: regs(vm), mem: vm.mem.to_vec() }
}
#[cfg(not(kani))]
thread_local! {
    static PARSER: InterpreterParser = InterpreterParser::new();
}
#[cfg(not(kani))]
pub fn glue(label: &str, pre: &Pre, after: &VM, ctx: &mut Context, text: &str, expect_state_dbg: Option<String>) {
    let mut vm2 = VM::new();
    set_regs(&mut vm2, &pre.regs);
    vm2.mem.copy_from_slice(&pre.mem);
    let r = PARSER.with(|p| p.parse(CUR, &mut vm2, ctx, text).map(|s| format!("{:?}", s)).map_err(|e| format!("{}", e)));
    crate::verif_rt::native::note(format!("glue {} => {:?}", text, r));
    match (&r, &expect_state_dbg) {
        (Err(_), _) => crate::verif_rt::native::fail(&format!("GLUE.{}.parse_error", label)),
        (Ok(s), Some(e)) if s != e => crate::verif_rt::native::fail(&format!("GLUE.{}.state", label)),
        _ => {}
    }
    if regs(&vm2) != regs(after) {
        crate::verif_rt::native::fail(&format!("GLUE.{}.regs", label));
    }
    if vm2.mem[..] != after.mem[..] {
        crate::verif_rt::native::fail(&format!("GLUE.{}.mem", label));
    }
}

pub const TABLE: &[(&str, fn())] = &[];
