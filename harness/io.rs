// verif_io (binary crate, scratch copy only): the console boundary of driver/print.rs and
// driver/interrupts.rs.  `print!` / `println!` are shadowed by macros that append (format literal,
// argument values) to a bounded ghost log -- the argument EXPRESSIONS stay the real ones -- and
// `std::io::stdin().read_line` is replaced by a stub that appends an arbitrary bounded ASCII line.
#![allow(dead_code, static_mut_refs)]
use emulator_8086_lib::vsym;

pub const LOG_CAP: usize = 96;
pub static mut LOG_FMT: [&str; LOG_CAP] = [""; LOG_CAP];
pub static mut LOG_ARGS: [u64; 12 * LOG_CAP] = [0; 12 * LOG_CAP];
pub static mut LOG_NARGS: [usize; LOG_CAP] = [0; LOG_CAP];
/// 1 = a memory byte "{:02X}\t", 2 = line break, 3 = column gap, 0 = anything else (classified when logged,
/// where the literal is concrete, so that harnesses need no string comparison over the log)
pub static mut LOG_KIND: [u8; LOG_CAP] = [0; LOG_CAP];
pub static mut LOG_LEN: usize = 0;
pub static mut LOG_OVERFLOW: bool = false;
/// number of events including those that did not fit in the log
pub static mut LOG_TOTAL: usize = 0;

pub fn log_reset() {
    unsafe {
        LOG_LEN = 0;
        LOG_OVERFLOW = false;
        LOG_TOTAL = 0;
    }
}
pub fn log_len() -> usize {
    unsafe { LOG_LEN }
}
pub fn log_fmt(i: usize) -> &'static str {
    unsafe { LOG_FMT[i] }
}
pub fn log_arg(i: usize, k: usize) -> u64 {
    unsafe { LOG_ARGS[i * 12 + k] }
}
pub fn log_kind(i: usize) -> u8 {
    unsafe { LOG_KIND[i] }
}
pub fn log_nargs(i: usize) -> usize {
    unsafe { LOG_NARGS[i] }
}
pub fn log_total() -> usize {
    unsafe { LOG_TOTAL }
}
pub fn log_overflow() -> bool {
    unsafe { LOG_OVERFLOW }
}

pub fn log_event(fmt: &'static str, args: &[u64]) {
    unsafe {
        LOG_TOTAL += 1;
        if LOG_LEN >= LOG_CAP {
            LOG_OVERFLOW = true;
            return;
        }
        LOG_FMT[LOG_LEN] = fmt;
        LOG_KIND[LOG_LEN] = if fmt.as_bytes() == "{:02X}\t".as_bytes() { 1 } else if fmt.as_bytes() == "\n".as_bytes() { 2 } else if fmt.as_bytes() == "\t".as_bytes() { 3 } else { 0 };
        let mut k = 0;
        while k < args.len() && k < 12 {
            LOG_ARGS[LOG_LEN * 12 + k] = args[k];
            k += 1;
        }
        LOG_NARGS[LOG_LEN] = args.len();
        LOG_LEN += 1;
    }
}

/// an event that is not console output: a call of one of the driver's environment stubs
/// (verif_drv); `kind` >= 10 identifies the stub, `args` are what it was called with
pub fn log_marker(kind: u8, args: &[u64]) {
    unsafe {
        LOG_TOTAL += 1;
        if LOG_LEN >= LOG_CAP {
            LOG_OVERFLOW = true;
            return;
        }
        LOG_FMT[LOG_LEN] = "<stub>";
        LOG_KIND[LOG_LEN] = kind;
        let mut k = 0;
        while k < args.len() && k < 12 {
            LOG_ARGS[LOG_LEN * 12 + k] = args[k];
            k += 1;
        }
        LOG_NARGS[LOG_LEN] = args.len();
        LOG_LEN += 1;
    }
}

pub trait ToLog {
    fn to_log(&self) -> u64;
}
macro_rules! tl {
    ($($t:ty),*) => { $(impl ToLog for $t { fn to_log(&self) -> u64 { *self as u64 } })* };
}
tl!(u8, u16, u32, u64, usize, i8, i16, i32, char, bool);
impl ToLog for std::io::Error {
    fn to_log(&self) -> u64 {
        0
    }
}
impl ToLog for str {
    fn to_log(&self) -> u64 {
        self.len() as u64
    }
}
impl<T: ToLog + ?Sized> ToLog for &T {
    fn to_log(&self) -> u64 {
        (**self).to_log()
    }
}
impl ToLog for String {
    fn to_log(&self) -> u64 {
        self.len() as u64
    }
}

// ------------------------------------------------------------------ stdin stub
pub const LINE_MAX: usize = 8;
pub static mut STDIN_LINE: [u8; LINE_MAX] = [0; LINE_MAX];
pub static mut STDIN_LEN: usize = 0;
pub static mut STDIN_NEWLINE: bool = false;
pub static mut STDIN_READS: usize = 0;

/// the next "input line": `len` arbitrary ASCII bytes (no newline inside), optionally followed by
/// '\n'; len = 0 without newline is end of input
pub fn stdin_set(line: [u8; LINE_MAX], len: usize, newline: bool) {
    unsafe {
        STDIN_LINE = line;
        STDIN_LEN = len;
        STDIN_NEWLINE = newline;
        STDIN_READS = 0;
        SEQ_N = 0;
        SEQ_MODE = false;
    }
}

// sequence mode (prompt loop): SEQ_N > 0 lines are available, then end of input
pub const SEQ_MAX: usize = 4;
pub static mut SEQ_N: usize = 0;
pub static mut SEQ_MODE: bool = false;
pub static mut SEQ_LINE: [[u8; LINE_MAX]; SEQ_MAX] = [[0; LINE_MAX]; SEQ_MAX];
pub static mut SEQ_LEN: [usize; SEQ_MAX] = [0; SEQ_MAX];
pub static mut SEQ_NL: [bool; SEQ_MAX] = [false; SEQ_MAX];
pub static mut SEQ_EOF_READS: usize = 0;

pub fn stdin_seq_reset() {
    unsafe {
        SEQ_N = 0;
        SEQ_MODE = true;
        STDIN_READS = 0;
        SEQ_EOF_READS = 0;
    }
}
/// append one line to the scripted input (a line of length 0 without newline cannot be expressed:
/// that is end of input, which follows the last scripted line)
pub fn stdin_seq_push(line: [u8; LINE_MAX], len: usize, newline: bool) {
    unsafe {
        if SEQ_N < SEQ_MAX {
            SEQ_LINE[SEQ_N] = line;
            SEQ_LEN[SEQ_N] = len;
            SEQ_NL[SEQ_N] = newline;
            SEQ_N += 1;
        }
    }
}
pub fn stdin_reads() -> usize {
    unsafe { STDIN_READS }
}
pub fn stdin_eof_reads() -> usize {
    unsafe { SEQ_EOF_READS }
}

pub fn read_line(buf: &mut String) -> std::io::Result<usize> {
    unsafe {
        if SEQ_MODE {
            let r = STDIN_READS;
            STDIN_READS += 1;
            log_marker(18, &[r as u64]);
            if r >= SEQ_N {
                SEQ_EOF_READS += 1;
                // end of input is permanent.  A caller that has already read past it twice gets "n": a harness
                // device that bounds a loop which ignores end of input (by then the obligation
                // "no read after end of input" is violated, whatever happens next)
                if SEQ_EOF_READS >= 3 {
                    buf.push('n');
                    return Ok(1);
                }
                return Ok(0);
            }
            let mut i = 0;
            while i < SEQ_LEN[r] {
                buf.push((SEQ_LINE[r][i] & 0x7F) as char);
                i += 1;
            }
            if SEQ_NL[r] {
                buf.push('\n');
            }
            return Ok(SEQ_LEN[r] + SEQ_NL[r] as usize);
        }
        STDIN_READS += 1;
        let mut i = 0;
        while i < STDIN_LEN {
            buf.push((STDIN_LINE[i] & 0x7F) as char);
            i += 1;
        }
        if STDIN_NEWLINE {
            buf.push('\n');
        }
        Ok(STDIN_LEN + STDIN_NEWLINE as usize)
    }
}
