// C02 (A-harnesses): AND/OR/XOR/TEST and SHL/SAL/SHR/SAR/ROL/ROR/RCL/RCR kernels vs. a
// reference that performs `count` single-bit 8086 steps, for every value, every count 0..255,
// every incoming flag word, arbitrary registers and memory.
use crate::instructions::bit_manipulation::*;
use crate::verif_rt::*;
use crate::{vassert, vassert_kf, vassume, vcell, vcover, vsym};

macro_rules! logic_harness {
    ($h:ident, $name:expr, $f:ident, $t:ty, $msb:expr, $op:expr, $is_test:expr) => {
        #[cfg_attr(kani, kani::proof)]
        pub fn $h() {
            let mut vm = mk_vm();
            vsym!(w_op1: $t);
            vsym!(w_op2: $t);
            vsym!(w_p: usize);
            vassume!(w_p < MBU);
            vcell!(vm, w_p, w_pv);
            let pre = regs(&vm);
            let r = $f(&mut vm, w_op1, w_op2);
            let post = regs(&vm);
            let bits: $t = ($op)(w_op1, w_op2);
            let er: $t = if $is_test { w_op1 } else { bits };
            let pf = fl_of(post.flag);
            vassert!(concat!("C02.", $name, ".res"), r == er);
            vassert!(concat!("C02.", $name, ".CF"), !pf.cf);
            vassert!(concat!("C02.", $name, ".OF"), !pf.of);
            vassert!(concat!("C02.", $name, ".ZF"), pf.zf == (bits == 0));
            vassert!(concat!("C02.", $name, ".SF"), pf.sf == (bits & $msb != 0));
            vassert!(concat!("C02.", $name, ".PF"), pf.pf == par8(bits as u8));
            vassert!(concat!("C02.", $name, ".otherflags"), post.flag & !STATUS == pre.flag & !STATUS);
            let mut p2 = post;
            p2.flag = pre.flag;
            vassert!(concat!("C02.", $name, ".regs"), p2 == pre);
            vassert!(concat!("C02.", $name, ".mem"), vm.mem[w_p] == w_pv);
            done(vm);
        }
    };
}

logic_harness!(c02_byte_and, "byte_and", byte_and, u8, 0x80u8, |a: u8, b: u8| a & b, false);
logic_harness!(c02_byte_or, "byte_or", byte_or, u8, 0x80u8, |a: u8, b: u8| a | b, false);
logic_harness!(c02_byte_xor, "byte_xor", byte_xor, u8, 0x80u8, |a: u8, b: u8| a ^ b, false);
logic_harness!(c02_byte_test, "byte_test", byte_test, u8, 0x80u8, |a: u8, b: u8| a & b, true);
logic_harness!(c02_word_and, "word_and", word_and, u16, 0x8000u16, |a: u16, b: u16| a & b, false);
logic_harness!(c02_word_or, "word_or", word_or, u16, 0x8000u16, |a: u16, b: u16| a | b, false);
logic_harness!(c02_word_xor, "word_xor", word_xor, u16, 0x8000u16, |a: u16, b: u16| a ^ b, false);
logic_harness!(c02_word_test, "word_test", word_test, u16, 0x8000u16, |a: u16, b: u16| a & b, true);

#[derive(Clone, Copy, PartialEq, Eq)]
pub enum Sh {
    Shl,
    Shr,
    Sar,
    Rol,
    Ror,
    Rcl,
    Rcr,
}

/// one 8086 single-bit step on a `bits`-wide value; returns (value, carry)
pub fn step(kind: Sh, v: u32, cf: bool, bits: u32) -> (u32, bool) {
    let msb = 1u32 << (bits - 1);
    let mask = (msb << 1) - 1;
    let top = v & msb != 0;
    let low = v & 1 != 0;
    match kind {
        Sh::Shl => ((v << 1) & mask, top),
        Sh::Shr => (v >> 1, low),
        Sh::Sar => ((v >> 1) | (v & msb), low),
        Sh::Rol => (((v << 1) & mask) | top as u32, top),
        Sh::Ror => ((v >> 1) | if low { msb } else { 0 }, low),
        Sh::Rcl => (((v << 1) & mask) | cf as u32, top),
        Sh::Rcr => ((v >> 1) | if cf { msb } else { 0 }, low),
    }
}

pub fn ref_shift(kind: Sh, v: u32, cf_in: bool, count: u32, bits: u32) -> (u32, bool) {
    let mut v = v;
    let mut cf = cf_in;
    let mut i = 0;
    while i < count {
        let (nv, ncf) = step(kind, v, cf, bits);
        v = nv;
        cf = ncf;
        i += 1;
    }
    (v, cf)
}

macro_rules! shift_harness {
    ($h:ident, $hf:ident, $name:expr, $f:ident, $t:ty, $bits:expr, $kind:expr, $is_shift:tt) => {
        // value + flags, register frame; memory is never indexed symbolically here (SAT back end)
        #[cfg_attr(kani, kani::proof)]
        #[cfg_attr(kani, kani::unwind(257))]
        pub fn $h() {
            let mut vm = mk_vm();
            vsym!(w_val: $t);
            vsym!(w_cnt: u8);
            let pre = regs(&vm);
            let r = $f(&mut vm, w_val, w_cnt as $t);
            let post = regs(&vm);
            let kind: Sh = $kind;
            let bits: u32 = $bits;
            let msb: u32 = 1 << (bits - 1);
            let (er, ecf) = ref_shift(kind, w_val as u32, fl_of(pre.flag).cf, w_cnt as u32, bits);
            let pf = fl_of(post.flag);
            vcover!(concat!("C02.", $name, ".cover.count_ge_width"), w_cnt as u32 >= bits);
            vcover!(concat!("C02.", $name, ".cover.count_multiple"), w_cnt as u32 == 2 * bits + 2);
            vassert!(concat!("C02.", $name, ".res"), r as u32 == er);
            if w_cnt == 0 {
                vassert!(concat!("C02.", $name, ".count0_flags"), post.flag == pre.flag);
            } else {
                vassert!(concat!("C02.", $name, ".CF"), pf.cf == ecf);
                shift_flags!($is_shift, $name, pf, er, msb, post, pre);
                if w_cnt == 1 {
                    let top = er & msb != 0;
                    let next = er & (msb >> 1) != 0;
                    let eof = match kind {
                        Sh::Shl | Sh::Rol | Sh::Rcl => top != ecf,
                        Sh::Shr => (w_val as u32) & msb != 0,
                        Sh::Sar => false,
                        Sh::Ror | Sh::Rcr => top != next,
                    };
                    vassert!(concat!("C02.", $name, ".OF_count1"), pf.of == eof);
                }
            }
            let mut p2 = post;
            p2.flag = pre.flag;
            vassert!(concat!("C02.", $name, ".regs"), p2 == pre);
            done(vm);
        }
        // memory frame: no byte of memory changes, for every value / count / state
        #[cfg_attr(kani, kani::proof)]
        pub fn $hf() {
            let mut vm = mk_vm();
            vsym!(w_val: $t);
            vsym!(w_cnt: u8);
            vsym!(w_p: usize);
            vassume!(w_p < MBU);
            vcell!(vm, w_p, w_pv);
            let _ = $f(&mut vm, w_val, w_cnt as $t);
            vassert!(concat!("C02.", $name, ".mem"), vm.mem[w_p] == w_pv);
            done(vm);
        }
    };
}

macro_rules! shift_flags {
    (true, $name:expr, $pf:expr, $er:expr, $msb:expr, $post:expr, $pre:expr) => {
        vassert!(concat!("C02.", $name, ".ZF"), $pf.zf == ($er == 0));
        vassert!(concat!("C02.", $name, ".SF"), $pf.sf == ($er & $msb != 0));
        vassert!(concat!("C02.", $name, ".PF"), $pf.pf == par8($er as u8));
        // AF is undefined after a shift; everything outside the six status flags is kept
        vassert!(concat!("C02.", $name, ".otherflags"), $post.flag & !STATUS == $pre.flag & !STATUS);
    };
    (false, $name:expr, $pf:expr, $er:expr, $msb:expr, $post:expr, $pre:expr) => {
        // rotates affect CF and OF only
        vassert!(concat!("C02.", $name, ".otherflags"), $post.flag & !0x0801 == $pre.flag & !0x0801);
    };
}

shift_harness!(c02_byte_sal, c02_frame_byte_sal, "byte_sal", byte_sal, u8, 8, Sh::Shl, true);
shift_harness!(c02_byte_shr, c02_frame_byte_shr, "byte_shr", byte_shr, u8, 8, Sh::Shr, true);
shift_harness!(c02_byte_sar, c02_frame_byte_sar, "byte_sar", byte_sar, u8, 8, Sh::Sar, true);
shift_harness!(c02_byte_rol, c02_frame_byte_rol, "byte_rol", byte_rol, u8, 8, Sh::Rol, false);
shift_harness!(c02_byte_ror, c02_frame_byte_ror, "byte_ror", byte_ror, u8, 8, Sh::Ror, false);
shift_harness!(c02_byte_rcl, c02_frame_byte_rcl, "byte_rcl", byte_rcl, u8, 8, Sh::Rcl, false);
shift_harness!(c02_byte_rcr, c02_frame_byte_rcr, "byte_rcr", byte_rcr, u8, 8, Sh::Rcr, false);
shift_harness!(c02_word_sal, c02_frame_word_sal, "word_sal", word_sal, u16, 16, Sh::Shl, true);
shift_harness!(c02_word_shr, c02_frame_word_shr, "word_shr", word_shr, u16, 16, Sh::Shr, true);
shift_harness!(c02_word_sar, c02_frame_word_sar, "word_sar", word_sar, u16, 16, Sh::Sar, true);
shift_harness!(c02_word_rol, c02_frame_word_rol, "word_rol", word_rol, u16, 16, Sh::Rol, false);
shift_harness!(c02_word_ror, c02_frame_word_ror, "word_ror", word_ror, u16, 16, Sh::Ror, false);
shift_harness!(c02_word_rcl, c02_frame_word_rcl, "word_rcl", word_rcl, u16, 16, Sh::Rcl, false);
shift_harness!(c02_word_rcr, c02_frame_word_rcr, "word_rcr", word_rcr, u16, 16, Sh::Rcr, false);

#[cfg_attr(kani, kani::proof)]
pub fn c02_twin_reach() {
    let mut vm = mk_vm();
    vsym!(w_val: u8);
    vsym!(w_cnt: u8);
    vassume!(w_cnt >= 1 && w_cnt <= 7);
    let _ = byte_rol(&mut vm, w_val, w_cnt);
    vassert!("C02.twin.must_fail", false);
    done(vm);
}

pub const TABLE: &[(&str, fn())] = &[
    ("c02_byte_and", c02_byte_and),
    ("c02_byte_or", c02_byte_or),
    ("c02_byte_xor", c02_byte_xor),
    ("c02_byte_test", c02_byte_test),
    ("c02_word_and", c02_word_and),
    ("c02_word_or", c02_word_or),
    ("c02_word_xor", c02_word_xor),
    ("c02_word_test", c02_word_test),
    ("c02_byte_sal", c02_byte_sal),
    ("c02_byte_shr", c02_byte_shr),
    ("c02_byte_sar", c02_byte_sar),
    ("c02_byte_rol", c02_byte_rol),
    ("c02_byte_ror", c02_byte_ror),
    ("c02_byte_rcl", c02_byte_rcl),
    ("c02_byte_rcr", c02_byte_rcr),
    ("c02_word_sal", c02_word_sal),
    ("c02_word_shr", c02_word_shr),
    ("c02_word_sar", c02_word_sar),
    ("c02_word_rol", c02_word_rol),
    ("c02_word_ror", c02_word_ror),
    ("c02_word_rcl", c02_word_rcl),
    ("c02_word_rcr", c02_word_rcr),
    ("c02_frame_byte_sal", c02_frame_byte_sal),
    ("c02_frame_byte_shr", c02_frame_byte_shr),
    ("c02_frame_byte_sar", c02_frame_byte_sar),
    ("c02_frame_byte_rol", c02_frame_byte_rol),
    ("c02_frame_byte_ror", c02_frame_byte_ror),
    ("c02_frame_byte_rcl", c02_frame_byte_rcl),
    ("c02_frame_byte_rcr", c02_frame_byte_rcr),
    ("c02_frame_word_sal", c02_frame_word_sal),
    ("c02_frame_word_shr", c02_frame_word_shr),
    ("c02_frame_word_sar", c02_frame_word_sar),
    ("c02_frame_word_rol", c02_frame_word_rol),
    ("c02_frame_word_ror", c02_frame_word_ror),
    ("c02_frame_word_rcl", c02_frame_word_rcl),
    ("c02_frame_word_rcr", c02_frame_word_rcr),
    ("c02_twin_reach", c02_twin_reach),
];
