// C06: conditional jumps and LOOPs are taken exactly under the 8086 condition.
use crate::{vassert, vassert_kf, vassume, vcell, vcover, vsym};

/// the Intel predicate of each interpreter mnemonic (by vocabulary id); None for the LOOP family
fn predicate(id: u8, f: Fl, cx: u16) -> bool {
    match id {
        ID_jmp => true,
        ID_ja | ID_jnbe => !f.cf && !f.zf,
        ID_jae | ID_jnc | ID_jnb => !f.cf,
        ID_jb | ID_jc | ID_jnae => f.cf,
        ID_jbe | ID_jna => f.cf || f.zf,
        ID_je | ID_jz => f.zf,
        ID_jne | ID_jnz => !f.zf,
        ID_jg | ID_jnle => !f.zf && f.sf == f.of,
        ID_jge | ID_jnl => f.sf == f.of,
        ID_jl | ID_jnge => f.sf != f.of,
        ID_jle | ID_jng => f.zf || f.sf != f.of,
        ID_jno => !f.of,
        ID_jo => f.of,
        ID_jnp | ID_jpo => !f.pf,
        ID_jp | ID_jpe => f.pf,
        ID_jns => !f.sf,
        ID_js => f.sf,
        ID_jcxz => cx == 0,
        _ => false,
    }
}

/// all 26 jumps_condition actions: taken iff the predicate; LOOP family decrements CX first;
/// nothing else in the machine changes
#[cfg_attr(kani, kani::proof)]
pub fn c06_conditions() {
    let mut vm = mk_vm();
    let mut ctx = mk_ctx();
    vsym!(w_j: u8);
    vsym!(w_p: usize);
    vassume!(w_j < NT_jumps_condition_N && w_p < MBU);
    vcell!(vm, w_p, w_pv);
    let pre = regs(&vm);
    let take = nt_jumps_condition(w_j, CUR, &mut vm, &mut ctx);
    let id = NT_jumps_condition_ID[w_j as usize];
    let f = fl_of(pre.flag);
    let mut er = pre;
    let is_loope = id == ID_loope || id == ID_loopz;
    let is_loopne = id == ID_loopne || id == ID_loopnz;
    let is_loop = id == ID_loop || is_loope || is_loopne;
    let exp = if is_loop {
        er.cx = pre.cx.wrapping_sub(1);
        er.cx != 0 && (id == ID_loop || (is_loope && f.zf) || (is_loopne && !f.zf))
    } else {
        predicate(id, f, pre.cx)
    };
    // Known finding: JLE/JNG is taken only when ZF=1 AND SF!=OF (pinned by test_jg_jle)
    let jle_region = (id == ID_jle || id == ID_jng) && (f.zf != (f.sf != f.of));
    vassert_kf!("C06.condition.taken_iff_predicate", take == exp, KF_C06_jle, jle_region);
    vassert!("C06.condition.every_mnemonic_known", id != 255);
    vassert!("C06.condition.registers_and_flags", regs(&vm) == er);
    vassert!("C06.condition.memory", vm.mem[w_p] == w_pv);
    vcover!("C06.condition.cover.loop_cx_wraps", is_loop && pre.cx == 0);
    vcover!("C06.condition.cover.jle_outside_region", id == ID_jle && !jle_region && exp);
    done_ctx(ctx);
    done(vm);
}

/// complementary conditions are never both taken or both skipped
#[cfg_attr(kani, kani::proof)]
pub fn c06_complements() {
    let mut vm = mk_vm();
    let mut ctx = mk_ctx();
    vsym!(w_a: u8);
    vsym!(w_b: u8);
    vassume!(w_a < NT_jumps_condition_N && w_b < NT_jumps_condition_N);
    let (ia, ib) = (NT_jumps_condition_ID[w_a as usize], NT_jumps_condition_ID[w_b as usize]);
    let pair = |x: u8, y: u8| (ia == x && ib == y);
    let complementary = pair(ID_ja, ID_jbe) || pair(ID_jae, ID_jb) || pair(ID_jc, ID_jnc) || pair(ID_je, ID_jne)
        || pair(ID_jg, ID_jle) || pair(ID_jge, ID_jl) || pair(ID_jo, ID_jno) || pair(ID_jp, ID_jnp) || pair(ID_js, ID_jns);
    vassume!(complementary);
    let f = fl_of(regs(&vm).flag);
    let ta = nt_jumps_condition(w_a, CUR, &mut vm, &mut ctx);
    let tb = nt_jumps_condition(w_b, CUR, &mut vm, &mut ctx);
    let jle_region = ib == ID_jle && (f.zf != (f.sf != f.of));
    vassert_kf!("C06.complement.exactly_one_taken", ta != tb, KF_C06_jle, jle_region);
    vcover!("C06.complement.cover.jg_jle", pair(ID_jg, ID_jle) && !jle_region);
    done_ctx(ctx);
    done(vm);
}

fn ctx_label(kind_data: bool, map: usize, present: bool) -> Context {
    let mut ctx = mk_ctx();
    // a procedure may start exactly where a label points (label directly before `def`, or first in a body)
    vsym!(w_fn_present: bool);
    vsym!(w_fn_pos: u16);
    #[cfg(kani)]
    ctx.fn_map.items.reserve(2);
    if w_fn_present {
        ctx.fn_map.insert("f".to_owned(), w_fn_pos as usize);
    }
    if present {
        let t = if kind_data { LabelType::DATA } else { LabelType::CODE };
        ctx.label_map.insert("t".to_owned(), crate::util::preprocessor_util::Label::new(t, 0, map));
    }
    ctx
}

/// the combiner: a CODE label gives exactly JMP(position) when taken and NEXT otherwise; a data or
/// unknown label is a reported error, never a crash; no state changes
#[cfg_attr(kani, kani::proof)]
#[cfg_attr(kani, kani::stub(alloc::fmt::format, crate::verif_rt::fmt_stub))]
#[cfg_attr(kani, kani::unwind(5))]
pub fn c06_combiner() {
    let mut vm = mk_vm();
    vsym!(w_take: bool);
    vsym!(w_map: u16);
    vsym!(w_kind: u8);
    vassume!(w_kind < 3);
    let mut ctx = ctx_label(w_kind == 1, w_map as usize, w_kind != 2);
    let pre = regs(&vm);
    let r = p_jumps_loops__jumps_condition__name_string(CUR, &mut vm, &mut ctx, "", (0, w_take, 0), (0, "t".to_owned(), 0));
    match w_kind {
        0 => {
            let ok = match &r {
                Ok(State::JMP(n)) => w_take && *n == w_map as usize,
                Ok(State::NEXT) => !w_take,
                _ => false,
            };
            vassert!("C06.combiner.code_label", ok);
        }
        _ => {
            vassert!("C06.combiner.bad_label_is_error", r.is_err());
        }
    }
    vassert!("C06.combiner.registers_and_flags", regs(&vm) == pre);
    vcover!("C06.combiner.cover.label_at_procedure_start", w_kind == 0 && ctx.fn_map.get("f") == Some(&(w_map as usize)));
    std::mem::forget(r);
    done_ctx(ctx);
    done(vm);
}

#[cfg_attr(kani, kani::proof)]
pub fn c06_twin_reach() {
    let mut vm = mk_vm();
    let mut ctx = mk_ctx();
    vsym!(w_j: u8);
    vassume!(w_j < NT_jumps_condition_N);
    let take = nt_jumps_condition(w_j, CUR, &mut vm, &mut ctx);
    vassert!("C06.twin.must_fail", !take);
    done_ctx(ctx);
    done(vm);
}

pub const TABLE: &[(&str, fn())] = &[
    ("c06_conditions", c06_conditions),
    ("c06_complements", c06_complements),
    ("c06_combiner", c06_combiner),
    ("c06_twin_reach", c06_twin_reach),
];
