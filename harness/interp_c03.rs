// C03 (B-harnesses): the 6 unary_arithmetic productions with MUL/IMUL/DIV/IDIV (divide error -> INT 0).
use crate::{vassert, vassume, vcell, vcover, vsym};

unop!(c03b_unary_r8, "C03b.unary.r8", u8, 8, nt_byte_unary_arithmetic, NT_byte_unary_arithmetic_N, NT_byte_unary_arithmetic_TEXT, NT_byte_unary_arithmetic_ID, dst_reg8,
    |id: u8| !(id == ID_dec || id == ID_inc || id == ID_neg),
    |vm: &mut VM, ctx: &mut Context, f, d: &Op| p_unary_arithmetic__byte_unary_arithmetic__byte_reg(CUR, vm, ctx, "", (0, f, 0), (0, d.b, 0)));
unop!(c03b_unary_m8, "C03b.unary.m8", u8, 8, nt_byte_unary_arithmetic, NT_byte_unary_arithmetic_N, NT_byte_unary_arithmetic_TEXT, NT_byte_unary_arithmetic_ID, opnd_mem,
    |id: u8| !(id == ID_dec || id == ID_inc || id == ID_neg),
    |vm: &mut VM, ctx: &mut Context, f, d: &Op| p_unary_arithmetic__byte_unary_arithmetic__T_byte__memory_addr(CUR, vm, ctx, "", (0, f, 0), KB, (0, d.m, 0)));
unop!(c03b_unary_l8, "C03b.unary.l8", u8, 8, nt_byte_unary_arithmetic, NT_byte_unary_arithmetic_N, NT_byte_unary_arithmetic_TEXT, NT_byte_unary_arithmetic_ID, opnd_lab,
    |id: u8| !(id == ID_dec || id == ID_inc || id == ID_neg),
    |vm: &mut VM, ctx: &mut Context, f, d: &Op| p_unary_arithmetic__byte_unary_arithmetic__byte_label(CUR, vm, ctx, "", (0, f, 0), (0, d.m, 0)));
unop!(c03b_unary_r16, "C03b.unary.r16", u16, 16, nt_word_unary_arithmetic, NT_word_unary_arithmetic_N, NT_word_unary_arithmetic_TEXT, NT_word_unary_arithmetic_ID, dst_reg16,
    |id: u8| !(id == ID_dec || id == ID_inc || id == ID_neg),
    |vm: &mut VM, ctx: &mut Context, f, d: &Op| p_unary_arithmetic__word_unary_arithmetic__word_reg(CUR, vm, ctx, "", (0, f, 0), (0, d.w, 0)));
unop!(c03b_unary_m16, "C03b.unary.m16", u16, 16, nt_word_unary_arithmetic, NT_word_unary_arithmetic_N, NT_word_unary_arithmetic_TEXT, NT_word_unary_arithmetic_ID, opnd_mem,
    |id: u8| !(id == ID_dec || id == ID_inc || id == ID_neg),
    |vm: &mut VM, ctx: &mut Context, f, d: &Op| p_unary_arithmetic__word_unary_arithmetic__T_word__memory_addr(CUR, vm, ctx, "", (0, f, 0), KW, (0, d.m, 0)));
unop!(c03b_unary_l16, "C03b.unary.l16", u16, 16, nt_word_unary_arithmetic, NT_word_unary_arithmetic_N, NT_word_unary_arithmetic_TEXT, NT_word_unary_arithmetic_ID, opnd_lab,
    |id: u8| !(id == ID_dec || id == ID_inc || id == ID_neg),
    |vm: &mut VM, ctx: &mut Context, f, d: &Op| p_unary_arithmetic__word_unary_arithmetic__word_label(CUR, vm, ctx, "", (0, f, 0), (0, d.m, 0)));

pub const TABLE: &[(&str, fn())] = &[
    ("c03b_unary_r8", c03b_unary_r8),
    ("c03b_unary_m8", c03b_unary_m8),
    ("c03b_unary_l8", c03b_unary_l8),
    ("c03b_unary_r16", c03b_unary_r16),
    ("c03b_unary_m16", c03b_unary_m16),
    ("c03b_unary_l16", c03b_unary_l16),
];
