// C03 (B-harnesses): the 6 unary_arithmetic productions with MUL/IMUL/DIV/IDIV (divide error -> INT 0).
use crate::{vassert, vassume, vcell, vcover, vsym};

unop!(c03b_unary_r8_k0, "C03b.unary.r8", u8, 8, nt_byte_unary_arithmetic, NT_byte_unary_arithmetic_N, NT_byte_unary_arithmetic_TEXT, NT_byte_unary_arithmetic_ID, dst_reg8_k0,
    |id: u8| !(id == ID_dec || id == ID_inc || id == ID_neg), no,
    |vm: &mut VM, ctx: &mut Context, f, d: &Op| p_unary_arithmetic__byte_unary_arithmetic__byte_reg(CUR, vm, ctx, "", (0, f, 0), (0, d.b, 0)));
unop!(c03b_unary_r8_k1, "C03b.unary.r8", u8, 8, nt_byte_unary_arithmetic, NT_byte_unary_arithmetic_N, NT_byte_unary_arithmetic_TEXT, NT_byte_unary_arithmetic_ID, dst_reg8_k1,
    |id: u8| !(id == ID_dec || id == ID_inc || id == ID_neg), no,
    |vm: &mut VM, ctx: &mut Context, f, d: &Op| p_unary_arithmetic__byte_unary_arithmetic__byte_reg(CUR, vm, ctx, "", (0, f, 0), (0, d.b, 0)));
unop!(c03b_unary_r8_k2, "C03b.unary.r8", u8, 8, nt_byte_unary_arithmetic, NT_byte_unary_arithmetic_N, NT_byte_unary_arithmetic_TEXT, NT_byte_unary_arithmetic_ID, dst_reg8_k2,
    |id: u8| !(id == ID_dec || id == ID_inc || id == ID_neg), no,
    |vm: &mut VM, ctx: &mut Context, f, d: &Op| p_unary_arithmetic__byte_unary_arithmetic__byte_reg(CUR, vm, ctx, "", (0, f, 0), (0, d.b, 0)));
unop!(c03b_unary_r8_k3, "C03b.unary.r8", u8, 8, nt_byte_unary_arithmetic, NT_byte_unary_arithmetic_N, NT_byte_unary_arithmetic_TEXT, NT_byte_unary_arithmetic_ID, dst_reg8_k3,
    |id: u8| !(id == ID_dec || id == ID_inc || id == ID_neg), no,
    |vm: &mut VM, ctx: &mut Context, f, d: &Op| p_unary_arithmetic__byte_unary_arithmetic__byte_reg(CUR, vm, ctx, "", (0, f, 0), (0, d.b, 0)));
unop!(c03b_unary_r8_k4, "C03b.unary.r8", u8, 8, nt_byte_unary_arithmetic, NT_byte_unary_arithmetic_N, NT_byte_unary_arithmetic_TEXT, NT_byte_unary_arithmetic_ID, dst_reg8_k4,
    |id: u8| !(id == ID_dec || id == ID_inc || id == ID_neg), no,
    |vm: &mut VM, ctx: &mut Context, f, d: &Op| p_unary_arithmetic__byte_unary_arithmetic__byte_reg(CUR, vm, ctx, "", (0, f, 0), (0, d.b, 0)));
unop!(c03b_unary_r8_k5, "C03b.unary.r8", u8, 8, nt_byte_unary_arithmetic, NT_byte_unary_arithmetic_N, NT_byte_unary_arithmetic_TEXT, NT_byte_unary_arithmetic_ID, dst_reg8_k5,
    |id: u8| !(id == ID_dec || id == ID_inc || id == ID_neg), no,
    |vm: &mut VM, ctx: &mut Context, f, d: &Op| p_unary_arithmetic__byte_unary_arithmetic__byte_reg(CUR, vm, ctx, "", (0, f, 0), (0, d.b, 0)));
unop!(c03b_unary_r8_k6, "C03b.unary.r8", u8, 8, nt_byte_unary_arithmetic, NT_byte_unary_arithmetic_N, NT_byte_unary_arithmetic_TEXT, NT_byte_unary_arithmetic_ID, dst_reg8_k6,
    |id: u8| !(id == ID_dec || id == ID_inc || id == ID_neg), no,
    |vm: &mut VM, ctx: &mut Context, f, d: &Op| p_unary_arithmetic__byte_unary_arithmetic__byte_reg(CUR, vm, ctx, "", (0, f, 0), (0, d.b, 0)));
unop!(c03b_unary_r8_k7, "C03b.unary.r8", u8, 8, nt_byte_unary_arithmetic, NT_byte_unary_arithmetic_N, NT_byte_unary_arithmetic_TEXT, NT_byte_unary_arithmetic_ID, dst_reg8_k7,
    |id: u8| !(id == ID_dec || id == ID_inc || id == ID_neg), no,
    |vm: &mut VM, ctx: &mut Context, f, d: &Op| p_unary_arithmetic__byte_unary_arithmetic__byte_reg(CUR, vm, ctx, "", (0, f, 0), (0, d.b, 0)));
frame_only_un!(c03b_unary_r8_frame, "C03b.unary.r8", nt_byte_unary_arithmetic, NT_byte_unary_arithmetic_N, NT_byte_unary_arithmetic_ID, dst_reg8,
    |id: u8| !(id == ID_dec || id == ID_inc || id == ID_neg),
    |vm: &mut VM, ctx: &mut Context, f, d: &Op| p_unary_arithmetic__byte_unary_arithmetic__byte_reg(CUR, vm, ctx, "", (0, f, 0), (0, d.b, 0)));
unop!(c03b_unary_m8, "C03b.unary.m8", u8, 8, nt_byte_unary_arithmetic, NT_byte_unary_arithmetic_N, NT_byte_unary_arithmetic_TEXT, NT_byte_unary_arithmetic_ID, opnd_mem,
    |id: u8| !(id == ID_dec || id == ID_inc || id == ID_neg), yes,
    |vm: &mut VM, ctx: &mut Context, f, d: &Op| p_unary_arithmetic__byte_unary_arithmetic__T_byte__memory_addr(CUR, vm, ctx, "", (0, f, 0), KB, (0, d.m, 0)));
unop!(c03b_unary_l8, "C03b.unary.l8", u8, 8, nt_byte_unary_arithmetic, NT_byte_unary_arithmetic_N, NT_byte_unary_arithmetic_TEXT, NT_byte_unary_arithmetic_ID, opnd_lab,
    |id: u8| !(id == ID_dec || id == ID_inc || id == ID_neg), yes,
    |vm: &mut VM, ctx: &mut Context, f, d: &Op| p_unary_arithmetic__byte_unary_arithmetic__byte_label(CUR, vm, ctx, "", (0, f, 0), (0, d.m, 0)));
unop!(c03b_unary_r16_k0, "C03b.unary.r16", u16, 16, nt_word_unary_arithmetic, NT_word_unary_arithmetic_N, NT_word_unary_arithmetic_TEXT, NT_word_unary_arithmetic_ID, dst_reg16_k0,
    |id: u8| !(id == ID_dec || id == ID_inc || id == ID_neg), no,
    |vm: &mut VM, ctx: &mut Context, f, d: &Op| p_unary_arithmetic__word_unary_arithmetic__word_reg(CUR, vm, ctx, "", (0, f, 0), (0, d.w, 0)));
unop!(c03b_unary_r16_k1, "C03b.unary.r16", u16, 16, nt_word_unary_arithmetic, NT_word_unary_arithmetic_N, NT_word_unary_arithmetic_TEXT, NT_word_unary_arithmetic_ID, dst_reg16_k1,
    |id: u8| !(id == ID_dec || id == ID_inc || id == ID_neg), no,
    |vm: &mut VM, ctx: &mut Context, f, d: &Op| p_unary_arithmetic__word_unary_arithmetic__word_reg(CUR, vm, ctx, "", (0, f, 0), (0, d.w, 0)));
unop!(c03b_unary_r16_k2, "C03b.unary.r16", u16, 16, nt_word_unary_arithmetic, NT_word_unary_arithmetic_N, NT_word_unary_arithmetic_TEXT, NT_word_unary_arithmetic_ID, dst_reg16_k2,
    |id: u8| !(id == ID_dec || id == ID_inc || id == ID_neg), no,
    |vm: &mut VM, ctx: &mut Context, f, d: &Op| p_unary_arithmetic__word_unary_arithmetic__word_reg(CUR, vm, ctx, "", (0, f, 0), (0, d.w, 0)));
unop!(c03b_unary_r16_k3, "C03b.unary.r16", u16, 16, nt_word_unary_arithmetic, NT_word_unary_arithmetic_N, NT_word_unary_arithmetic_TEXT, NT_word_unary_arithmetic_ID, dst_reg16_k3,
    |id: u8| !(id == ID_dec || id == ID_inc || id == ID_neg), no,
    |vm: &mut VM, ctx: &mut Context, f, d: &Op| p_unary_arithmetic__word_unary_arithmetic__word_reg(CUR, vm, ctx, "", (0, f, 0), (0, d.w, 0)));
unop!(c03b_unary_r16_k4, "C03b.unary.r16", u16, 16, nt_word_unary_arithmetic, NT_word_unary_arithmetic_N, NT_word_unary_arithmetic_TEXT, NT_word_unary_arithmetic_ID, dst_reg16_k4,
    |id: u8| !(id == ID_dec || id == ID_inc || id == ID_neg), no,
    |vm: &mut VM, ctx: &mut Context, f, d: &Op| p_unary_arithmetic__word_unary_arithmetic__word_reg(CUR, vm, ctx, "", (0, f, 0), (0, d.w, 0)));
unop!(c03b_unary_r16_k5, "C03b.unary.r16", u16, 16, nt_word_unary_arithmetic, NT_word_unary_arithmetic_N, NT_word_unary_arithmetic_TEXT, NT_word_unary_arithmetic_ID, dst_reg16_k5,
    |id: u8| !(id == ID_dec || id == ID_inc || id == ID_neg), no,
    |vm: &mut VM, ctx: &mut Context, f, d: &Op| p_unary_arithmetic__word_unary_arithmetic__word_reg(CUR, vm, ctx, "", (0, f, 0), (0, d.w, 0)));
unop!(c03b_unary_r16_k6, "C03b.unary.r16", u16, 16, nt_word_unary_arithmetic, NT_word_unary_arithmetic_N, NT_word_unary_arithmetic_TEXT, NT_word_unary_arithmetic_ID, dst_reg16_k6,
    |id: u8| !(id == ID_dec || id == ID_inc || id == ID_neg), no,
    |vm: &mut VM, ctx: &mut Context, f, d: &Op| p_unary_arithmetic__word_unary_arithmetic__word_reg(CUR, vm, ctx, "", (0, f, 0), (0, d.w, 0)));
unop!(c03b_unary_r16_k7, "C03b.unary.r16", u16, 16, nt_word_unary_arithmetic, NT_word_unary_arithmetic_N, NT_word_unary_arithmetic_TEXT, NT_word_unary_arithmetic_ID, dst_reg16_k7,
    |id: u8| !(id == ID_dec || id == ID_inc || id == ID_neg), no,
    |vm: &mut VM, ctx: &mut Context, f, d: &Op| p_unary_arithmetic__word_unary_arithmetic__word_reg(CUR, vm, ctx, "", (0, f, 0), (0, d.w, 0)));
frame_only_un!(c03b_unary_r16_frame, "C03b.unary.r16", nt_word_unary_arithmetic, NT_word_unary_arithmetic_N, NT_word_unary_arithmetic_ID, dst_reg16,
    |id: u8| !(id == ID_dec || id == ID_inc || id == ID_neg),
    |vm: &mut VM, ctx: &mut Context, f, d: &Op| p_unary_arithmetic__word_unary_arithmetic__word_reg(CUR, vm, ctx, "", (0, f, 0), (0, d.w, 0)));
unop!(c03b_unary_m16, "C03b.unary.m16", u16, 16, nt_word_unary_arithmetic, NT_word_unary_arithmetic_N, NT_word_unary_arithmetic_TEXT, NT_word_unary_arithmetic_ID, opnd_mem,
    |id: u8| !(id == ID_dec || id == ID_inc || id == ID_neg), yes,
    |vm: &mut VM, ctx: &mut Context, f, d: &Op| p_unary_arithmetic__word_unary_arithmetic__T_word__memory_addr(CUR, vm, ctx, "", (0, f, 0), KW, (0, d.m, 0)));
unop!(c03b_unary_l16, "C03b.unary.l16", u16, 16, nt_word_unary_arithmetic, NT_word_unary_arithmetic_N, NT_word_unary_arithmetic_TEXT, NT_word_unary_arithmetic_ID, opnd_lab,
    |id: u8| !(id == ID_dec || id == ID_inc || id == ID_neg), yes,
    |vm: &mut VM, ctx: &mut Context, f, d: &Op| p_unary_arithmetic__word_unary_arithmetic__word_label(CUR, vm, ctx, "", (0, f, 0), (0, d.m, 0)));

pub const TABLE: &[(&str, fn())] = &[
    ("c03b_unary_r8_k0", c03b_unary_r8_k0),
    ("c03b_unary_r8_k1", c03b_unary_r8_k1),
    ("c03b_unary_r8_k2", c03b_unary_r8_k2),
    ("c03b_unary_r8_k3", c03b_unary_r8_k3),
    ("c03b_unary_r8_k4", c03b_unary_r8_k4),
    ("c03b_unary_r8_k5", c03b_unary_r8_k5),
    ("c03b_unary_r8_k6", c03b_unary_r8_k6),
    ("c03b_unary_r8_k7", c03b_unary_r8_k7),
    ("c03b_unary_r8_frame", c03b_unary_r8_frame),
    ("c03b_unary_m8", c03b_unary_m8),
    ("c03b_unary_l8", c03b_unary_l8),
    ("c03b_unary_r16_k0", c03b_unary_r16_k0),
    ("c03b_unary_r16_k1", c03b_unary_r16_k1),
    ("c03b_unary_r16_k2", c03b_unary_r16_k2),
    ("c03b_unary_r16_k3", c03b_unary_r16_k3),
    ("c03b_unary_r16_k4", c03b_unary_r16_k4),
    ("c03b_unary_r16_k5", c03b_unary_r16_k5),
    ("c03b_unary_r16_k6", c03b_unary_r16_k6),
    ("c03b_unary_r16_k7", c03b_unary_r16_k7),
    ("c03b_unary_r16_frame", c03b_unary_r16_frame),
    ("c03b_unary_m16", c03b_unary_m16),
    ("c03b_unary_l16", c03b_unary_l16),
];
