// CMDDriver::run() -- the REAL text of src/driver/driver.rs (copy made by lib/gen.py with the environment
// redirected to verif_drv) -- against a reference run loop written from the statements of C08 / C20 / C16 /
// C18 / C03 / C12 / C14.  The assembler result, the label table, the source map, the per-instruction result
// of the interpreter (State, flags incl. TF, AX) and the answers of get_err_pos are symbolic; the run is
// observed as the sequence of calls the driver makes to its environment and of its console messages.
use crate::driver::verif_drv as drv;
use crate::driver::verif_io as io;
use emulator_8086_lib::{vassert, vassume, vcover, vsym};

macro_rules! syms {
    ($t:ty; $($n:ident),*) => { $( vsym!($n: $t); )* };
}

const F_NONE: u8 = 0;
const F_FIRST: u8 = 1;
const F_NEXT: u8 = 2;
const F_TEXT: u8 = 3;
const F_AFTER_HALT: u8 = 4;
const F_PROMPT_MISSING: u8 = 5;
const F_PROMPT_EXTRA: u8 = 6;
const F_INT3: u8 = 7;
const F_POS: u8 = 8;
const F_LINE: u8 = 9;
const F_SERVICE: u8 = 10;
const F_AH_STOP: u8 = 11;
const F_DIV: u8 = 12;
const F_DATA: u8 = 13;
const F_DS0: u8 = 14;
const F_DIAG: u8 = 15;
const F_PRINT: u8 = 16;
const F_PREP: u8 = 17;

struct Walk {
    p: usize,
    fail: u8,
}

impl Walk {
    /// skip console messages; kind of the next environment call (0 = none left)
    fn peek(&mut self) -> u8 {
        let n = io::log_len();
        let mut s = 0;
        while self.p < n && io::log_kind(self.p) < 10 && s < 6 {
            self.p += 1;
            s += 1;
        }
        if self.p < n {
            io::log_kind(self.p)
        } else {
            0
        }
    }
    fn set(&mut self, f: u8) {
        if self.fail == F_NONE {
            self.fail = f;
        }
    }
    /// the message printed right after the c-th get_err_pos call shows the line number it returned
    /// and (if it shows a text) the text of that line
    fn message_after_errpos(&mut self, sc: &drv::Scenario) {
        // self.p is the index of the errpos event
        let c = io::log_arg(self.p, 1) as usize;
        let q = self.p + 1;
        if q >= io::log_len() || io::log_kind(q) >= 10 {
            self.set(F_LINE);
            return;
        }
        let c = if c < drv::EPMAX { c } else { drv::EPMAX - 1 };
        let na = io::log_nargs(q);
        let line = sc.ep_line[c] as u64;
        let tlen = (sc.ep_end[c] - sc.ep_start[c]) as u64;
        let mut has_line = false;
        let mut has_text = false;
        let mut j = 0;
        while j < na && j < 4 {
            if io::log_arg(q, j) == line {
                has_line = true;
            }
            if io::log_arg(q, j) == tlen {
                has_text = true;
            }
            j += 1;
        }
        // "Int 3 at line {}" is the one message without the text
        if !has_line || (na >= 2 && !has_text) {
            self.set(F_LINE);
        }
    }
}

fn run_body(n: usize, d: usize, klen: usize, start_kind: u8, undef: u8, pre_err: bool) {
    run_body_fixed(n, d, klen, start_kind, undef, pre_err, 255, 0)
}

/// `fix_kind` != 255: the result kind (and interrupt number) of the first executed instruction is a parameter of
/// the harness; its jump target, flag word and AX stay symbolic
fn run_body_fixed(n: usize, d: usize, klen: usize, start_kind: u8, undef: u8, pre_err: bool, fix_kind: u8, fix_int: u8) {
    syms!(usize; w_start_map, w_undef_pos, w_tg0, w_tg1, w_tg2, w_tg3, w_tg4, w_tg5);
    syms!(usize; w_el0, w_el1, w_el2, w_es0, w_es1, w_ee0, w_ee1, w_ds0, w_ds1);
    syms!(u8; w_kd0, w_kd1, w_kd2, w_kd3, w_kd4, w_kd5, w_in0, w_in1, w_in2, w_in3, w_in4, w_in5);
    syms!(u16; w_fl0, w_fl1, w_fl2, w_fl3, w_fl4, w_fl5, w_ax0, w_ax1, w_ax2, w_ax3, w_ax4, w_ax5);
    syms!(bool; w_interpreted, w_dok0, w_dok1, w_pok);
    let tl = drv::TEXT.len();
    // the shape of the label table is a parameter of the harness (a symbolic number of table entries makes
    // every table lookup a loop over a symbolic length; the contents stay symbolic)
    let w_start_kind = start_kind;
    let w_undef = undef;
    vassume!(w_start_map <= n && w_undef_pos <= tl);
    vassume!(w_tg0 <= n && w_tg1 <= n && w_tg2 <= n && w_tg3 <= n && w_tg4 <= n && w_tg5 <= n);
    vassume!(w_es0 <= w_ee0 && w_ee0 <= tl && w_es1 <= w_ee1 && w_ee1 <= tl);
    vassume!(w_el0 < 100000 && w_el1 < 100000 && w_el2 < 100000 && w_ds0 < 70000 && w_ds1 < 70000);
    // get_err_pos: end of the line >= the position asked for (only the undefined-label message subtracts)
    let never_defined = undef == 1 || undef == 3 || undef == 4;
    vassume!(!never_defined || w_ee0 >= w_undef_pos);
    let mut sc = drv::SC0;
    // recorded source positions: concrete and pairwise distinct (a symbolic scalar inside the assembler's result
    // struct makes CBMC lose every constant of that struct when it is moved through the Result: all Vec lengths
    // become symbolic and no run finishes); first / small / large / beyond 64 KiB
    sc.pos = [0, 7, 300, 65541];
    sc.start_map = w_start_map;
    sc.undef_pos = w_undef_pos;
    let mut c = 0;
    while c < drv::EPMAX {
        sc.ep_line[c] = [w_el0, w_el1, w_el2][c % 3] + c;
        sc.ep_start[c] = if c % 2 == 0 { w_es0 } else { w_es1 };
        sc.ep_end[c] = if c % 2 == 0 { w_ee0 } else { w_ee1 };
        c += 1;
    }
    let kd = [w_kd0, w_kd1, w_kd2, w_kd3, w_kd4, w_kd5];
    let tg = [w_tg0, w_tg1, w_tg2, w_tg3, w_tg4, w_tg5];
    let it = [w_in0, w_in1, w_in2, w_in3, w_in4, w_in5];
    let fl = [w_fl0, w_fl1, w_fl2, w_fl3, w_fl4, w_fl5];
    let ax = [w_ax0, w_ax1, w_ax2, w_ax3, w_ax4, w_ax5];
    let mut k = 0;
    while k < klen && k < 6 {
        sc.kind[k] = kd[k] % 7;
        sc.tgt[k] = tg[k];
        sc.int[k] = it[k];
        sc.flag[k] = fl[k];
        sc.ax[k] = ax[k];
        k += 1;
    }
    sc.data_ok = [w_dok0, w_dok1];
    sc.data_size = [w_ds0, w_ds1];
    sc.print_ok = w_pok;
    drv::reset(sc);
    drv::set_shape(n, d, start_kind, undef, klen, pre_err);
    if fix_kind == 254 {
        drv::set_last_is_hlt(true);
    } else if fix_kind != 255 {
        sc.kind[0] = fix_kind;
        sc.int[0] = fix_int;
        drv::fix_first(fix_kind, fix_int);
    }

    // ------------------------------------------------ the real run()
    let driver = CMDDriver::new(String::new(), w_interpreted);
    driver.run();

    // ------------------------------------------------ reference
    let mut w = Walk { p: 0, fail: F_NONE };
    let mut stepped_tf_only = false;
    let mut saw_int3 = false;
    let mut saw_back_jump = false;
    let mut saw_bad_ah = false;
    let mut saw_repeat = false;
    let mut executed = 0usize;
    'done: {
        if w.peek() != drv::EV_PREPROCESS {
            w.set(F_PREP);
            break 'done;
        }
        w.p += 1;
        if pre_err {
            break 'done;
        }
        if never_defined {
            if w.peek() != drv::EV_ERRPOS || io::log_arg(w.p, 0) != sc.undef_pos as u64 {
                w.set(F_DIAG);
                break 'done;
            }
            w.message_after_errpos(&sc);
            w.p += 1;
            break 'done;
        }
        if start_kind != 1 {
            break 'done;
        }
        let mut ctr = 0usize;
        let mut j = 0;
        while j < d {
            if w.peek() != drv::EV_DATA
                || io::log_arg(w.p, 0) != drv::data_len(j) as u64
                || io::log_arg(w.p, 1) != ctr as u64
                || io::log_arg(w.p, 2) != 0
            {
                w.set(F_DATA);
                break 'done;
            }
            w.p += 1;
            if !sc.data_ok[j] {
                break 'done;
            }
            ctr += sc.data_size[j];
            j += 1;
        }
        let mut idx = sc.start_map;
        let mut flag: u16 = 0xF000;
        let mut k = 0usize;
        while k <= klen {
            let stepping = (w_interpreted || flag & 0x0100 != 0) && idx < n;
            let nk = w.peek();
            if stepping {
                if nk != drv::EV_ERRPOS {
                    w.set(F_PROMPT_MISSING);
                    break 'done;
                }
                if io::log_arg(w.p, 0) != sc.pos[idx] as u64 {
                    w.set(F_POS);
                    break 'done;
                }
                w.message_after_errpos(&sc);
                w.p += 1;
                if w.peek() != drv::EV_UI {
                    w.set(F_PROMPT_MISSING);
                    break 'done;
                }
                w.p += 1;
                if !w_interpreted {
                    stepped_tf_only = true;
                }
            } else if nk == drv::EV_ERRPOS || nk == drv::EV_UI {
                w.set(F_PROMPT_EXTRA);
                break 'done;
            }
            if w.peek() != drv::EV_INTERP {
                w.set(if k == 0 { F_FIRST } else { F_NEXT });
                break 'done;
            }
            if io::log_arg(w.p, 0) != idx as u64 {
                w.set(if k == 0 { F_FIRST } else { F_NEXT });
                break 'done;
            }
            let want_len = if idx < n { drv::code_len(idx) } else { 3 };
            if io::log_arg(w.p, 1) != want_len as u64 {
                w.set(F_TEXT);
                break 'done;
            }
            if k == 0 && io::log_arg(w.p, 2) != 0 {
                w.set(F_DS0);
                break 'done;
            }
            w.p += 1;
            executed += 1;
            if idx >= n || k >= klen {
                break 'done; // HALT
            }
            flag = sc.flag[k];
            let ah = (sc.ax[k] >> 8) as u8;
            match sc.kind[k] {
                0 => break 'done,
                1 => {
                    if w.peek() != drv::EV_ERRPOS || io::log_arg(w.p, 0) != sc.pos[idx] as u64 {
                        w.set(F_POS);
                        break 'done;
                    }
                    w.message_after_errpos(&sc);
                    w.p += 1;
                    if w.peek() != drv::EV_PRINTER || io::log_arg(w.p, 0) != drv::code_len(idx) as u64 {
                        w.set(F_PRINT);
                        break 'done;
                    }
                    w.p += 1;
                    if !sc.print_ok {
                        break 'done;
                    }
                    idx += 1;
                }
                2 => {
                    if sc.tgt[k] <= idx {
                        saw_back_jump = true;
                    }
                    idx = sc.tgt[k];
                }
                3 => idx += 1,
                4 => {
                    let i = sc.int[k];
                    if i == 0 {
                        if w.peek() != drv::EV_ERRPOS || io::log_arg(w.p, 0) != sc.pos[idx] as u64 {
                            w.set(F_DIV);
                            break 'done;
                        }
                        w.message_after_errpos(&sc);
                        w.p += 1;
                        break 'done;
                    } else if i == 3 {
                        saw_int3 = true;
                        if w.peek() != drv::EV_ERRPOS || io::log_arg(w.p, 0) != sc.pos[idx] as u64 {
                            w.set(F_POS);
                            break 'done;
                        }
                        w.message_after_errpos(&sc);
                        w.p += 1;
                        if w.peek() != drv::EV_UI {
                            w.set(F_INT3);
                            break 'done;
                        }
                        w.p += 1;
                        idx += 1;
                    } else if i == 0x10 || i == 0x21 {
                        let ok = if i == 0x10 { ah == 0x0A || ah == 0x13 } else { ah == 1 || ah == 2 || ah == 0x0A };
                        let ev = if i == 0x10 { drv::EV_INT13 } else { drv::EV_INT21 };
                        if ok {
                            if w.peek() != ev || io::log_arg(w.p, 0) != ah as u64 {
                                w.set(F_SERVICE);
                                break 'done;
                            }
                            w.p += 1;
                            idx += 1;
                        } else {
                            saw_bad_ah = true;
                            let nk = w.peek();
                            if nk == drv::EV_INT13 || nk == drv::EV_INT21 {
                                w.set(F_SERVICE);
                                break 'done;
                            }
                            if nk != drv::EV_ERRPOS || io::log_arg(w.p, 0) != sc.pos[idx] as u64 {
                                w.set(F_AH_STOP);
                                break 'done;
                            }
                            w.message_after_errpos(&sc);
                            w.p += 1;
                            if w.peek() != 0 {
                                w.set(F_AH_STOP);
                            }
                            break 'done;
                        }
                    } else {
                        // an interrupt number the assembler never emits: the driver stops
                        break 'done;
                    }
                }
                5 => saw_repeat = true,
                _ => break 'done,
            }
            k += 1;
        }
    }
    // nothing is executed (and no prompt shown) after the run ended
    if w.fail == F_NONE && w.peek() != 0 {
        let halted_normally = !pre_err && !never_defined && start_kind == 1;
        w.set(if halted_normally { F_AFTER_HALT } else { F_DIAG });
    }
    let f = w.fail;
    vassert!("C08.run.first_instruction_is_the_one_after_start", f != F_FIRST);
    vassert!("C08.run.next_instruction_follows_the_state", f != F_NEXT);
    vassert!("C08.run.instruction_text_is_that_of_the_index", f != F_TEXT);
    vassert!("C08.run.nothing_after_halt", f != F_AFTER_HALT);
    vassert!("C08.run.print_statement_reaches_the_printer_once", f != F_PRINT);
    vassert!("C20.run.one_prompt_before_each_stepped_instruction", f != F_PROMPT_MISSING);
    vassert!("C20.run.no_prompt_when_not_stepping", f != F_PROMPT_EXTRA);
    vassert!("C20.run.int3_prompts_once_and_continues", f != F_INT3);
    vassert!("C20.run.machine_unchanged_between_instructions", !drv::vm_touched());
    vassert!("C16.run.message_position_is_the_instructions", f != F_POS);
    vassert!("C16.run.message_shows_line_and_text_of_that_position", f != F_LINE);
    vassert!("C18.run.service_called_iff_ah_supported", f != F_SERVICE);
    vassert!("C18.run.unsupported_ah_reported_and_stops", f != F_AH_STOP);
    vassert!("C03.run.divide_error_reported_and_stops", f != F_DIV);
    vassert!("C12.run.data_lines_in_order_one_counter_ds0", f != F_DATA);
    vassert!("C12.run.ds_zero_at_first_instruction", f != F_DS0);
    vassert!("C14.run.nothing_executed_after_a_diagnostic", f != F_DIAG && f != F_PREP);
    vassert!("C08.run.log_complete", !io::log_overflow());
    let runs = start_kind == 1 && !never_defined && n > 0 && !pre_err;
    vcover!("C20.run.cover.prompt_by_trap_flag_only", stepped_tf_only || !runs || klen < 2);
    let free = fix_kind == 255 || fix_kind == 254;
    let can = runs && klen >= 1;
    vcover!("C20.run.cover.int3", saw_int3 || !can || !(free || (fix_kind == 4 && fix_int == 3)));
    vcover!("C08.run.cover.backward_jump", saw_back_jump || !can || !(free || fix_kind == 2));
    vcover!("C18.run.cover.unsupported_ah", saw_bad_ah || !can || !(free || (fix_kind == 4 && (fix_int == 0x10 || fix_int == 0x21))));
    vcover!("C07.run.cover.repeat", saw_repeat || !can || !(free || fix_kind == 5));
    vcover!("C08.run.cover.ran_to_script_end", executed == klen + 1 || !runs || !free);
    // the first instruction sets TF: the second one is stepped although the switch is off
    vcover!("C20.run.cover.second_instruction_stepped_by_tf", stepped_tf_only || !can || !(fix_kind == 3 || fix_kind == 2 || fix_kind == 5));
    vcover!("C08.run.cover.empty_program", n != 0 || start_kind != 1 || pre_err || executed == 1);
}

macro_rules! run_harness {
    ($name:ident, $n:expr, $d:expr, $k:expr, $sk:expr, $ud:expr, $pe:expr, $unw:expr) => {
        #[cfg_attr(kani, kani::proof)]
        #[cfg_attr(kani, kani::unwind($unw))]
        #[cfg_attr(kani, kani::stub(core::str::slice_error_fail, emulator_8086_lib::verif_rt::slice_fail_stub))]
        pub fn $name() {
            run_body($n, $d, $k, $sk, $ud, $pe);
        }
    };
}
// (instructions, data lines, executed instructions, start: 0 absent / 1 code / 2 data,
//  forward references: 0 none / 1 undefined / 2 defined / 3, 4 two of which the first / second is undefined, assembler error)
run_harness!(c15_run_empty_program, 0, 0, 1, 1, 0, false, 12);
// the first instruction only (the interpreter stub halts at once): where execution begins, the prompt before it
run_harness!(c16_run_first_instruction_n1, 1, 0, 0, 1, 0, false, 12);
run_harness!(c16_run_first_instruction_n2, 2, 0, 0, 1, 0, false, 12);
macro_rules! first_harness {
    ($name:ident, $n:expr, $kind:expr, $int:expr) => {
        #[cfg_attr(kani, kani::proof)]
        #[cfg_attr(kani, kani::unwind(12))]
        #[cfg_attr(kani, kani::stub(core::str::slice_error_fail, emulator_8086_lib::verif_rt::slice_fail_stub))]
        pub fn $name() {
            run_body_fixed($n, 0, 1, 1, 0, false, $kind, $int);
        }
    };
}
// one executed instruction whose result KIND is fixed per harness (target / flags / AX symbolic), then the script halts
first_harness!(c08_run_first_next, 2, 3, 0);
first_harness!(c08_run_first_jmp, 2, 2, 0);
first_harness!(c08_run_first_print, 2, 1, 0);
first_harness!(c07_run_first_repeat, 2, 5, 0);
first_harness!(c03_run_first_int0, 2, 4, 0);
first_harness!(c20_run_first_int3, 2, 4, 3);
first_harness!(c18_run_first_int10, 2, 4, 0x10);
first_harness!(c18_run_first_int21, 2, 4, 0x21);
// a program that ends with its own hlt, start anywhere (also after it): the first instruction only
#[cfg_attr(kani, kani::proof)]
#[cfg_attr(kani, kani::unwind(12))]
#[cfg_attr(kani, kani::stub(core::str::slice_error_fail, emulator_8086_lib::verif_rt::slice_fail_stub))]
pub fn c15_run_program_ending_in_hlt() {
    run_body_fixed(2, 0, 0, 1, 0, false, 254, 0);
}
run_harness!(c14_run_start_absent, 1, 0, 1, 0, 0, false, 12);
run_harness!(c14_run_start_is_data, 1, 0, 1, 2, 0, false, 12);
run_harness!(c14_run_undefined_label, 1, 0, 1, 1, 1, false, 12);
run_harness!(c14_run_undefined_first_of_two, 1, 0, 1, 1, 3, false, 12);
run_harness!(c14_run_undefined_second_of_two__t, 1, 0, 1, 1, 4, false, 12);
run_harness!(c14_run_assembler_error, 1, 0, 1, 1, 0, true, 12);

#[cfg_attr(kani, kani::proof)]
#[cfg_attr(kani, kani::unwind(12))]
#[cfg_attr(kani, kani::stub(core::str::slice_error_fail, emulator_8086_lib::verif_rt::slice_fail_stub))]
pub fn c14_twin_run_reach() {
    let mut sc = drv::SC0;
    sc.kind[0] = 3;
    drv::reset(sc);
    drv::set_shape(1, 0, 1, 0, 1, false);
    let driver = CMDDriver::new(String::new(), false);
    driver.run();
    vassert!("C14.twin.must_fail", io::log_len() == 0);
}

pub const TABLE: &[(&str, fn())] = &[
    ("c15_run_empty_program", c15_run_empty_program),
    ("c16_run_first_instruction_n1", c16_run_first_instruction_n1),
    ("c16_run_first_instruction_n2", c16_run_first_instruction_n2),
    ("c08_run_first_next", c08_run_first_next),
    ("c08_run_first_jmp", c08_run_first_jmp),
    ("c08_run_first_print", c08_run_first_print),
    ("c07_run_first_repeat", c07_run_first_repeat),
    ("c03_run_first_int0", c03_run_first_int0),
    ("c20_run_first_int3", c20_run_first_int3),
    ("c18_run_first_int10", c18_run_first_int10),
    ("c18_run_first_int21", c18_run_first_int21),
    ("c15_run_program_ending_in_hlt", c15_run_program_ending_in_hlt),
    ("c14_run_start_absent", c14_run_start_absent),
    ("c14_run_start_is_data", c14_run_start_is_data),
    ("c14_run_undefined_label", c14_run_undefined_label),
    ("c14_run_undefined_first_of_two", c14_run_undefined_first_of_two),
    ("c14_run_undefined_second_of_two__t", c14_run_undefined_second_of_two__t),
    ("c14_run_assembler_error", c14_run_assembler_error),
    ("c14_twin_run_reach", c14_twin_run_reach),
];
