// Operand plumbing shared by the B-harnesses of C01/C02/C03/C05: symbolic operands built
// through the real leaf actions, their pre-state values, and the generic "dst := f(dst, src)"
// harness body for the two-operand productions.
use crate::{vassert, vassume, vcell, vcover, vsym};

pub const K_REG: u8 = 0;
pub const K_MEM: u8 = 1; // "byte"/"word" memory_addr
pub const K_LAB: u8 = 2; // byte_label / word_label (semantic value = address; label lookup is C04)
pub const K_IMM: u8 = 3;
pub const K_CL: u8 = 4;
pub const K_SEG: u8 = 5; // segment register (word only)

#[derive(Clone, Copy)]
pub struct Op {
    pub kind: u8,
    pub sel: u8,
    pub id: u8,
    pub b: ByteReg,
    pub w: WordReg,
    pub m: usize,
    pub md: MemDesc,
    pub imm: u16,
}

const NOMEM: MemDesc = MemDesc { shape: 0, ovr: false, seg: 0, reg: 0, base: 0, idx: 0, disp: 0, direct: 0 };

fn op0(kind: u8) -> Op {
    Op { kind, sel: 0, id: 0, b: ByteReg::AL, w: WordReg::AX, m: 0, md: NOMEM, imm: 0 }
}

pub fn dst_reg8(vm: &mut VM, ctx: &mut Context) -> Op {
    vsym!(w_d_r: u8);
    let sel = w_d_r % NT_byte_reg_N;
    let mut o = op0(K_REG);
    o.sel = sel;
    o.id = NT_byte_reg_ID[sel as usize];
    o.b = nt_byte_reg(sel, CUR, vm, ctx);
    o
}
pub fn src_reg8(vm: &mut VM, ctx: &mut Context) -> Op {
    vsym!(w_s_r: u8);
    let sel = w_s_r % NT_byte_reg_N;
    let mut o = op0(K_REG);
    o.sel = sel;
    o.id = NT_byte_reg_ID[sel as usize];
    o.b = nt_byte_reg(sel, CUR, vm, ctx);
    o
}
pub fn dst_reg16(vm: &mut VM, ctx: &mut Context) -> Op {
    vsym!(w_d_r: u8);
    let sel = w_d_r % NT_word_reg_N;
    let mut o = op0(K_REG);
    o.sel = sel;
    o.id = NT_word_reg_ID[sel as usize];
    o.w = nt_word_reg(sel, CUR, vm, ctx);
    o
}
pub fn src_reg16(vm: &mut VM, ctx: &mut Context) -> Op {
    vsym!(w_s_r: u8);
    let sel = w_s_r % NT_word_reg_N;
    let mut o = op0(K_REG);
    o.sel = sel;
    o.id = NT_word_reg_ID[sel as usize];
    o.w = nt_word_reg(sel, CUR, vm, ctx);
    o
}
/// operand register fixed (used where a symbolic choice of the operand register would turn the
/// query into an equivalence check of multiplier/divider circuits under multiplexers)
pub fn dst_reg8_n(sel: u8, vm: &mut VM, ctx: &mut Context) -> Op {
    let mut o = op0(K_REG);
    o.sel = sel;
    o.id = NT_byte_reg_ID[sel as usize];
    o.b = nt_byte_reg(sel, CUR, vm, ctx);
    o
}
pub fn dst_reg16_n(sel: u8, vm: &mut VM, ctx: &mut Context) -> Op {
    let mut o = op0(K_REG);
    o.sel = sel;
    o.id = NT_word_reg_ID[sel as usize];
    o.w = nt_word_reg(sel, CUR, vm, ctx);
    o
}
macro_rules! fixed_regs {
    ($($n8:ident, $n16:ident, $k:expr);*) => {
        $(pub fn $n8(vm: &mut VM, ctx: &mut Context) -> Op { dst_reg8_n($k, vm, ctx) }
          pub fn $n16(vm: &mut VM, ctx: &mut Context) -> Op { dst_reg16_n($k, vm, ctx) })*
    };
}
fixed_regs!(dst_reg8_k0, dst_reg16_k0, 0; dst_reg8_k1, dst_reg16_k1, 1; dst_reg8_k2, dst_reg16_k2, 2; dst_reg8_k3, dst_reg16_k3, 3;
            dst_reg8_k4, dst_reg16_k4, 4; dst_reg8_k5, dst_reg16_k5, 5; dst_reg8_k6, dst_reg16_k6, 6; dst_reg8_k7, dst_reg16_k7, 7);

pub fn dst_seg(vm: &mut VM, ctx: &mut Context) -> Op {
    vsym!(w_d_sr: u8);
    let sel = w_d_sr % NT_seg_reg_N;
    let mut o = op0(K_SEG);
    o.sel = sel;
    o.id = NT_seg_reg_ID[sel as usize];
    o.w = nt_seg_reg(sel, CUR, vm, ctx);
    o
}
pub fn src_seg(vm: &mut VM, ctx: &mut Context) -> Op {
    vsym!(w_s_sr: u8);
    let sel = w_s_sr % NT_seg_reg_N;
    let mut o = op0(K_SEG);
    o.sel = sel;
    o.id = NT_seg_reg_ID[sel as usize];
    o.w = nt_seg_reg(sel, CUR, vm, ctx);
    o
}
/// memory operand of a production.  The semantic value of `memory_addr` is just the physical
/// address, and that the address is the architecturally right one is C04's obligation; so under
/// Kani the address is an arbitrary symbolic value < 2^20 (this keeps the 10 addressing shapes out
/// of every data-path query).  Natively (glue validation on random inputs) the operand is built
/// through the real memory_addr actions so that it can be rendered as text; a solver witness
/// (which fixes w_mem_m) is replayed with that address.
pub fn opnd_mem(vm: &mut VM, ctx: &mut Context) -> Op {
    let mut o = op0(K_MEM);
    #[cfg(kani)]
    {
        vsym!(w_mem_m: usize);
        o.m = w_mem_m % MBU;
    }
    #[cfg(not(kani))]
    {
        let fixed = crate::verif_rt::native::WIT.with(|w| w.borrow().get("w_mem_m").cloned());
        match fixed {
            Some(v) => {
                o.m = (v as usize) % MBU;
                o.md.shape = 9; // no text available
            }
            None => {
                let (m, d) = sym_mem(vm, ctx);
                o.m = m;
                o.md = d;
            }
        }
    }
    o
}
pub fn opnd_lab(_vm: &mut VM, _ctx: &mut Context) -> Op {
    vsym!(w_lab_m: usize);
    let mut o = op0(K_LAB);
    o.m = w_lab_m % MBU;
    o
}
pub fn src_imm_s8(_vm: &mut VM, _ctx: &mut Context) -> Op {
    vsym!(w_imm: i8);
    let mut o = op0(K_IMM);
    o.imm = w_imm as u8 as u16;
    o
}
pub fn src_imm_u8(_vm: &mut VM, _ctx: &mut Context) -> Op {
    vsym!(w_imm: u8);
    let mut o = op0(K_IMM);
    o.imm = w_imm as u16;
    o
}
pub fn src_imm_s16(_vm: &mut VM, _ctx: &mut Context) -> Op {
    vsym!(w_imm: i16);
    let mut o = op0(K_IMM);
    o.imm = w_imm as u16;
    o
}
pub fn src_imm_u16(_vm: &mut VM, _ctx: &mut Context) -> Op {
    vsym!(w_imm: u16);
    let mut o = op0(K_IMM);
    o.imm = w_imm;
    o
}
pub fn src_cl(vm: &mut VM, ctx: &mut Context) -> Op {
    let mut o = op0(K_CL);
    o.id = ID_cl;
    o.b = nt_reg_cl(0, CUR, vm, ctx);
    o
}

impl Op {
    pub fn is_mem(&self) -> bool {
        self.kind == K_MEM || self.kind == K_LAB
    }
    /// pre-state value (byte); c0 = content of mem[m]
    pub fn val8(&self, pre: &Regs, c0: u8) -> u8 {
        match self.kind {
            K_REG | K_CL => r8(pre, self.id),
            K_MEM | K_LAB => c0,
            _ => self.imm as u8,
        }
    }
    pub fn val16(&self, pre: &Regs, c0: u8, c1: u8) -> u16 {
        match self.kind {
            K_REG | K_SEG => r16(pre, self.id),
            K_MEM | K_LAB => c0 as u16 | ((c1 as u16) << 8),
            K_CL => r8(pre, self.id) as u16,
            _ => self.imm,
        }
    }
    #[cfg(not(kani))]
    pub fn text(&self, width: u8, signed_imm: bool) -> String {
        let kw = if width == 8 { "byte" } else { "word" };
        match self.kind {
            K_REG => (if width == 8 { NT_byte_reg_TEXT[self.sel as usize] } else { NT_word_reg_TEXT[self.sel as usize] }).to_string(),
            K_SEG => NT_seg_reg_TEXT[self.sel as usize].to_string(),
            K_MEM => format!("{} {}", kw, render_mem(&self.md)),
            K_LAB => format!("{} v", kw),
            K_CL => "cl".to_string(),
            _ => {
                if signed_imm {
                    if width == 8 { format!("{}", self.imm as u8 as i8) } else { format!("{}", self.imm as i16) }
                } else {
                    format!("{}", self.imm)
                }
            }
        }
    }
}

/// context in which the data label `v` denotes physical address `m` under the current DS
#[cfg(not(kani))]
pub fn ctx_for_label(ds: u16, m: usize) -> Context {
    let mut ctx = mk_ctx();
    let map = (m + MBU - (ds as usize * 16) % MBU) % MBU;
    ctx.label_map.insert("v".to_owned(), crate::util::preprocessor_util::Label::new(LabelType::DATA, 0, map));
    ctx
}

/// expected content of the probe cell after `dst` (if it is a memory operand) received `val`
pub fn probe_after8(dst: &Op, val: u8, p: usize, pv: u8) -> u8 {
    if dst.is_mem() && p == dst.m { val } else { pv }
}
pub fn probe_after16(dst: &Op, val: u16, p: usize, pv: u8) -> u8 {
    if dst.is_mem() && p == nxt(dst.m) {
        (val >> 8) as u8
    } else if dst.is_mem() && p == dst.m {
        val as u8
    } else {
        pv
    }
}

/// probe cell: declared / checked only in harnesses that index memory anyway (SMT back end);
/// register-only productions get a separate memory-frame harness (frame_only!) so that their
/// data path can be decided by the much faster SAT back end.
macro_rules! probe_decl {
    (yes, $vm:expr, $p:ident, $pv:ident) => {
        vsym!($p: usize);
        vassume!($p < MBU);
        vcell!($vm, $p, $pv);
    };
    (no, $vm:expr, $p:ident, $pv:ident) => {
        let $p: usize = 0;
        let $pv: u8 = 0;
    };
}
macro_rules! probe_check {
    (yes, $lab:expr, $vm:expr, $p:ident, $expect:expr, $cov:expr) => {
        vassert!(concat!($lab, ".memory"), $vm.mem[$p] == $expect);
        vcover!(concat!($lab, ".cover.probe_hits_operand"), $cov);
    };
    (no, $lab:expr, $vm:expr, $p:ident, $expect:expr, $cov:expr) => {};
}
/// memory frame of a register-only production: whatever the operation and operands, no byte of
/// memory changes
macro_rules! frame_only {
    ($h:ident, $lab:expr, $nt_f:ident, $nt_n:ident, $mkdst:ident, $mksrc:ident, $call:expr) => {
        #[cfg_attr(kani, kani::proof)]
        pub fn $h() {
            let mut vm = mk_vm();
            let mut ctx = mk_ctx();
            vsym!(w_op: u8);
            vsym!(w_p: usize);
            vassume!(w_op < $nt_n && w_p < MBU);
            vcell!(vm, w_p, w_pv);
            let f = $nt_f(w_op, CUR, &mut vm, &mut ctx);
            let d: Op = $mkdst(&mut vm, &mut ctx);
            let s: Op = $mksrc(&mut vm, &mut ctx);
            ($call)(&mut vm, &mut ctx, f, &d, &s);
            vassert!(concat!($lab, ".memory_untouched"), vm.mem[w_p] == w_pv);
            done_ctx(ctx);
            done(vm);
        }
    };
}

macro_rules! frame_only_un {
    ($h:ident, $lab:expr, $nt_f:ident, $nt_n:ident, $nt_id:ident, $mkdst:ident, $filter:expr, $call:expr) => {
        #[cfg_attr(kani, kani::proof)]
        pub fn $h() {
            let mut vm = mk_vm();
            let mut ctx = mk_ctx();
            vsym!(w_op: u8);
            vsym!(w_p: usize);
            vassume!(w_op < $nt_n && w_p < MBU);
            vassume!(($filter)($nt_id[w_op as usize]));
            vcell!(vm, w_p, w_pv);
            let f = $nt_f(w_op, CUR, &mut vm, &mut ctx);
            let d: Op = $mkdst(&mut vm, &mut ctx);
            let _st: State = ($call)(&mut vm, &mut ctx, f, &d);
            vassert!(concat!($lab, ".memory_untouched"), vm.mem[w_p] == w_pv);
            done_ctx(ctx);
            done(vm);
        }
    };
}

/// Generic body for  `<f> dst, src`  productions whose kernel has type fn(&mut VM, T, T) -> T:
/// the production must leave dst := f(dst_pre, src_pre), the flag word f leaves, and nothing else.
macro_rules! binop8 {
    ($h:ident, $lab:expr, $nt_f:ident, $nt_n:ident, $nt_text:ident, $mkdst:ident, $mksrc:ident, $signed:expr, $probe:tt, $call:expr) => {
        #[cfg_attr(kani, kani::proof)]
        pub fn $h() {
            let mut vm = mk_vm();
            let mut ctx = mk_ctx();
            vsym!(w_op: u8);
            vassume!(w_op < $nt_n);
            probe_decl!($probe, vm, w_p, w_pv);
            let f = $nt_f(w_op, CUR, &mut vm, &mut ctx);
            let d: Op = $mkdst(&mut vm, &mut ctx);
            let s: Op = $mksrc(&mut vm, &mut ctx);
            let mm = if d.is_mem() { d.m } else { s.m };
            vcell!(vm, mm, w_c0);
            let pre = regs(&vm);
            #[cfg(not(kani))]
            let snap = snapshot(&vm);
            ($call)(&mut vm, &mut ctx, f, &d, &s);
            let dv = d.val8(&pre, w_c0);
            let sv = s.val8(&pre, w_c0);
            let mut vref = vm_like(&pre);
            let exp = f(&mut vref, dv, sv);
            let mut er = regs(&vref);
            if !d.is_mem() {
                set_r8(&mut er, d.id, exp);
            }
            vassert!(concat!($lab, ".registers_and_flags"), regs(&vm) == er);
            probe_check!($probe, $lab, vm, w_p, probe_after8(&d, exp, w_p, w_pv), !d.is_mem() || w_p == d.m);
            #[cfg(not(kani))]
            {
                let mut c2 = ctx_for_label(pre.ds, mm);
                let text = format!("{} {}, {}", $nt_text[w_op as usize], d.text(8, $signed), s.text(8, $signed));
                if d.md.shape != 9 && s.md.shape != 9 {
                    glue(stringify!($h), &snap, &vm, &mut c2, &text, Some("NEXT".to_string()));
                }
            }
            done(vref);
            done_ctx(ctx);
            done(vm);
        }
    };
}

macro_rules! binop16 {
    ($h:ident, $lab:expr, $nt_f:ident, $nt_n:ident, $nt_text:ident, $mkdst:ident, $mksrc:ident, $signed:expr, $probe:tt, $call:expr) => {
        #[cfg_attr(kani, kani::proof)]
        pub fn $h() {
            let mut vm = mk_vm();
            let mut ctx = mk_ctx();
            vsym!(w_op: u8);
            vassume!(w_op < $nt_n);
            probe_decl!($probe, vm, w_p, w_pv);
            let f = $nt_f(w_op, CUR, &mut vm, &mut ctx);
            let d: Op = $mkdst(&mut vm, &mut ctx);
            let s: Op = $mksrc(&mut vm, &mut ctx);
            let mm = if d.is_mem() { d.m } else { s.m };
            vcell!(vm, mm, w_c0);
            vcell!(vm, nxt(mm), w_c1);
            let pre = regs(&vm);
            #[cfg(not(kani))]
            let snap = snapshot(&vm);
            ($call)(&mut vm, &mut ctx, f, &d, &s);
            let dv = d.val16(&pre, w_c0, w_c1);
            let sv = s.val16(&pre, w_c0, w_c1);
            let mut vref = vm_like(&pre);
            let exp = f(&mut vref, dv, sv);
            let mut er = regs(&vref);
            if !d.is_mem() {
                set_r16(&mut er, d.id, exp);
            }
            vassert!(concat!($lab, ".registers_and_flags"), regs(&vm) == er);
            probe_check!($probe, $lab, vm, w_p, probe_after16(&d, exp, w_p, w_pv), !d.is_mem() || w_p == nxt(d.m));
            vcover!(concat!($lab, ".cover.word_wraps_1mb"), !(d.is_mem() || s.is_mem()) || mm == MBU - 1);
            #[cfg(not(kani))]
            {
                let mut c2 = ctx_for_label(pre.ds, mm);
                let text = format!("{} {}, {}", $nt_text[w_op as usize], d.text(16, $signed), s.text(16, $signed));
                if d.md.shape != 9 && s.md.shape != 9 {
                    glue(stringify!($h), &snap, &vm, &mut c2, &text, Some("NEXT".to_string()));
                }
            }
            done(vref);
            done_ctx(ctx);
            done(vm);
        }
    };
}

/// Generic body for  `<f> dst`  productions (kernel type fn(&mut VM, &mut T) -> Result<(), DivByZero>):
/// INC/DEC/NEG: dst := f(dst); MUL/IMUL/DIV/IDIV: dst is only read, AX(/DX) receive the result;
/// Err from the kernel = the divide-error outcome State::INT(0).
macro_rules! unop {
    ($h:ident, $lab:expr, $t:ty, $w:expr, $nt_f:ident, $nt_n:ident, $nt_text:ident, $nt_id:ident, $mkdst:ident, $filter:expr, $probe:tt, $call:expr) => {
        #[cfg_attr(kani, kani::proof)]
        pub fn $h() {
            let mut vm = mk_vm();
            let mut ctx = mk_ctx();
            vsym!(w_op: u8);
            vassume!(w_op < $nt_n);
            let opid = $nt_id[w_op as usize];
            vassume!(($filter)(opid));
            probe_decl!($probe, vm, w_p, w_pv);
            let f = $nt_f(w_op, CUR, &mut vm, &mut ctx);
            let d: Op = $mkdst(&mut vm, &mut ctx);
            vcell!(vm, d.m, w_c0);
            vcell!(vm, nxt(d.m), w_c1);
            let pre = regs(&vm);
            #[cfg(not(kani))]
            let snap = snapshot(&vm);
            let st: State = ($call)(&mut vm, &mut ctx, f, &d);
            let dv: $t = if $w == 8 { d.val8(&pre, w_c0) as $t } else { d.val16(&pre, w_c0, w_c1) as $t };
            let mut vref = vm_like(&pre);
            let mut v: $t = dv;
            let r = f(&mut vref, &mut v);
            let mut er = regs(&vref);
            let modifies = opid == ID_dec || opid == ID_inc || opid == ID_neg;
            let mut expect_mem = w_pv;
            if r.is_ok() && modifies {
                if d.is_mem() {
                    expect_mem = if $w == 8 { probe_after8(&d, v as u8, w_p, w_pv) } else { probe_after16(&d, v as u16, w_p, w_pv) };
                } else if $w == 8 {
                    set_r8(&mut er, d.id, v as u8);
                } else {
                    set_r16(&mut er, d.id, v as u16);
                }
            }
            vassert!(concat!($lab, ".outcome"), st == if r.is_ok() { State::NEXT } else { State::INT(0) });
            vassert!(concat!($lab, ".registers_and_flags"), regs(&vm) == er);
            probe_check!($probe, $lab, vm, w_p, expect_mem, !d.is_mem() || w_p == d.m || w_p == nxt(d.m));
            #[cfg(not(kani))]
            {
                let mut c2 = ctx_for_label(pre.ds, d.m);
                let text = format!("{} {}", $nt_text[w_op as usize], d.text($w, true));
                if d.md.shape != 9 {
                    glue(stringify!($h), &snap, &vm, &mut c2, &text, Some(format!("{:?}", st)));
                }
            }
            done(vref);
            done_ctx(ctx);
            done(vm);
        }
    };
}

/// NOT dst: dst := !dst, no flag changes, nothing else changes
macro_rules! notop {
    ($h:ident, $lab:expr, $w:expr, $mkdst:ident, $call:expr) => {
        #[cfg_attr(kani, kani::proof)]
        pub fn $h() {
            let mut vm = mk_vm();
            let mut ctx = mk_ctx();
            vsym!(w_p: usize);
            vassume!(w_p < MBU);
            vcell!(vm, w_p, w_pv);
            let d: Op = $mkdst(&mut vm, &mut ctx);
            vcell!(vm, d.m, w_c0);
            vcell!(vm, nxt(d.m), w_c1);
            let pre = regs(&vm);
            #[cfg(not(kani))]
            let snap = snapshot(&vm);
            ($call)(&mut vm, &mut ctx, &d);
            let mut er = pre;
            let mut expect_mem = w_pv;
            if $w == 8 {
                let v = !d.val8(&pre, w_c0);
                if d.is_mem() { expect_mem = probe_after8(&d, v, w_p, w_pv); } else { set_r8(&mut er, d.id, v); }
            } else {
                let v = !d.val16(&pre, w_c0, w_c1);
                if d.is_mem() { expect_mem = probe_after16(&d, v, w_p, w_pv); } else { set_r16(&mut er, d.id, v); }
            }
            vassert!(concat!($lab, ".registers_and_flags"), regs(&vm) == er);
            vassert!(concat!($lab, ".memory"), vm.mem[w_p] == expect_mem);
            vcover!(concat!($lab, ".cover.probe_hits_operand"), !d.is_mem() || w_p == d.m || w_p == nxt(d.m));
            #[cfg(not(kani))]
            {
                let mut c2 = ctx_for_label(pre.ds, d.m);
                if d.md.shape != 9 {
                    glue(stringify!($h), &snap, &vm, &mut c2, &format!("not {}", d.text($w, false)), Some("NEXT".to_string()));
                }
            }
            done_ctx(ctx);
            done(vm);
        }
    };
}

/// MOV dst, src: dst := src, flags and everything else unchanged
macro_rules! movop {
    ($h:ident, $lab:expr, $w:expr, $mkdst:ident, $mksrc:ident, $probe:tt, $call:expr) => {
        #[cfg_attr(kani, kani::proof)]
        pub fn $h() {
            let mut vm = mk_vm();
            let mut ctx = mk_ctx();
            probe_decl!($probe, vm, w_p, w_pv);
            let d: Op = $mkdst(&mut vm, &mut ctx);
            let s: Op = $mksrc(&mut vm, &mut ctx);
            let mm = if d.is_mem() { d.m } else { s.m };
            vcell!(vm, mm, w_c0);
            vcell!(vm, nxt(mm), w_c1);
            let pre = regs(&vm);
            #[cfg(not(kani))]
            let snap = snapshot(&vm);
            ($call)(&mut vm, &mut ctx, &d, &s);
            let mut er = pre;
            let expect_mem: u8;
            if $w == 8 {
                let v = s.val8(&pre, w_c0);
                if !d.is_mem() { set_r8(&mut er, d.id, v); }
                expect_mem = probe_after8(&d, v, w_p, w_pv);
            } else {
                let v = s.val16(&pre, w_c0, w_c1);
                if !d.is_mem() { set_r16(&mut er, d.id, v); }
                expect_mem = probe_after16(&d, v, w_p, w_pv);
            }
            vassert!(concat!($lab, ".registers_and_flags"), regs(&vm) == er);
            probe_check!($probe, $lab, vm, w_p, expect_mem, !d.is_mem() || w_p == d.m || w_p == nxt(d.m));
            #[cfg(not(kani))]
            {
                let mut c2 = ctx_for_label(pre.ds, mm);
                if d.md.shape != 9 && s.md.shape != 9 {
                    glue(stringify!($h), &snap, &vm, &mut c2, &format!("mov {}, {}", d.text($w, true), s.text($w, true)), Some("NEXT".to_string()));
                }
            }
            done_ctx(ctx);
            done(vm);
        }
    };
}

/// XCHG a, b: both operands swapped completely, flags and everything else unchanged
macro_rules! xchgop {
    ($h:ident, $lab:expr, $w:expr, $mkdst:ident, $mksrc:ident, $probe:tt, $call:expr) => {
        #[cfg_attr(kani, kani::proof)]
        pub fn $h() {
            let mut vm = mk_vm();
            let mut ctx = mk_ctx();
            probe_decl!($probe, vm, w_p, w_pv);
            let d: Op = $mkdst(&mut vm, &mut ctx);
            let s: Op = $mksrc(&mut vm, &mut ctx);
            vcell!(vm, d.m, w_c0);
            vcell!(vm, nxt(d.m), w_c1);
            let pre = regs(&vm);
            #[cfg(not(kani))]
            let snap = snapshot(&vm);
            ($call)(&mut vm, &mut ctx, &d, &s);
            let mut er = pre;
            let expect_mem: u8;
            if $w == 8 {
                let (dv, sv) = (d.val8(&pre, w_c0), s.val8(&pre, w_c0));
                // first operand receives the second's value, then the second receives the first's old value
                if !d.is_mem() { set_r8(&mut er, d.id, sv); }
                set_r8(&mut er, s.id, dv);
                if !d.is_mem() && d.id == s.id { set_r8(&mut er, s.id, dv); }
                expect_mem = probe_after8(&d, sv, w_p, w_pv);
            } else {
                let (dv, sv) = (d.val16(&pre, w_c0, w_c1), s.val16(&pre, w_c0, w_c1));
                if !d.is_mem() { set_r16(&mut er, d.id, sv); }
                set_r16(&mut er, s.id, dv);
                expect_mem = probe_after16(&d, sv, w_p, w_pv);
            }
            vassert!(concat!($lab, ".registers_and_flags"), regs(&vm) == er);
            probe_check!($probe, $lab, vm, w_p, expect_mem, !d.is_mem() || w_p == d.m || w_p == nxt(d.m));
            #[cfg(not(kani))]
            {
                let mut c2 = ctx_for_label(pre.ds, d.m);
                if d.md.shape != 9 {
                    glue(stringify!($h), &snap, &vm, &mut c2, &format!("xchg {}, {}", d.text($w, true), s.text($w, true)), Some("NEXT".to_string()));
                }
            }
            done_ctx(ctx);
            done(vm);
        }
    };
}

pub const C: (usize, &str, usize) = (0, ",", 0);
pub const KB: (usize, &str, usize) = (0, "byte", 0);
pub const KW: (usize, &str, usize) = (0, "word", 0);

pub const TABLE: &[(&str, fn())] = &[];
