// C02 (B-harnesses): the 16 binary_logical, 12 shift_rotate and 6 not productions.
// Instantiations written by lib/mk_interp_harness.py; the bodies are the macros of interp_ab_ops.rs.
use crate::{vassert, vassume, vcell, vcover, vsym};

binop8!(c02b_logical_rr8, "C02b.logical.rr8", nt_byte_binary_logical, NT_byte_binary_logical_N, NT_byte_binary_logical_TEXT, dst_reg8, src_reg8, false, no,
    |vm: &mut VM, ctx: &mut Context, f, d: &Op, s: &Op| p_binary_logical__byte_binary_logical__byte_reg__COMMA__byte_reg(CUR, vm, ctx, "", (0, f, 0), (0, d.b, 0), C, (0, s.b, 0)));
frame_only!(c02b_logical_rr8_frame, "C02b.logical.rr8", nt_byte_binary_logical, NT_byte_binary_logical_N, dst_reg8, src_reg8,
    |vm: &mut VM, ctx: &mut Context, f, d: &Op, s: &Op| p_binary_logical__byte_binary_logical__byte_reg__COMMA__byte_reg(CUR, vm, ctx, "", (0, f, 0), (0, d.b, 0), C, (0, s.b, 0)));
binop8!(c02b_logical_rm8, "C02b.logical.rm8", nt_byte_binary_logical, NT_byte_binary_logical_N, NT_byte_binary_logical_TEXT, dst_reg8, opnd_mem, false, yes,
    |vm: &mut VM, ctx: &mut Context, f, d: &Op, s: &Op| p_binary_logical__byte_binary_logical__byte_reg__COMMA__T_byte__memory_addr(CUR, vm, ctx, "", (0, f, 0), (0, d.b, 0), C, KB, (0, s.m, 0)));
binop8!(c02b_logical_rl8, "C02b.logical.rl8", nt_byte_binary_logical, NT_byte_binary_logical_N, NT_byte_binary_logical_TEXT, dst_reg8, opnd_lab, false, yes,
    |vm: &mut VM, ctx: &mut Context, f, d: &Op, s: &Op| p_binary_logical__byte_binary_logical__byte_reg__COMMA__byte_label(CUR, vm, ctx, "", (0, f, 0), (0, d.b, 0), C, (0, s.m, 0)));
binop8!(c02b_logical_mr8, "C02b.logical.mr8", nt_byte_binary_logical, NT_byte_binary_logical_N, NT_byte_binary_logical_TEXT, opnd_mem, src_reg8, false, yes,
    |vm: &mut VM, ctx: &mut Context, f, d: &Op, s: &Op| p_binary_logical__byte_binary_logical__T_byte__memory_addr__COMMA__byte_reg(CUR, vm, ctx, "", (0, f, 0), KB, (0, d.m, 0), C, (0, s.b, 0)));
binop8!(c02b_logical_lr8, "C02b.logical.lr8", nt_byte_binary_logical, NT_byte_binary_logical_N, NT_byte_binary_logical_TEXT, opnd_lab, src_reg8, false, yes,
    |vm: &mut VM, ctx: &mut Context, f, d: &Op, s: &Op| p_binary_logical__byte_binary_logical__byte_label__COMMA__byte_reg(CUR, vm, ctx, "", (0, f, 0), (0, d.m, 0), C, (0, s.b, 0)));
binop8!(c02b_logical_ri8, "C02b.logical.ri8", nt_byte_binary_logical, NT_byte_binary_logical_N, NT_byte_binary_logical_TEXT, dst_reg8, src_imm_u8, false, no,
    |vm: &mut VM, ctx: &mut Context, f, d: &Op, s: &Op| p_binary_logical__byte_binary_logical__byte_reg__COMMA__u_byte_num(CUR, vm, ctx, "", (0, f, 0), (0, d.b, 0), C, (0, s.imm as u8, 0)));
frame_only!(c02b_logical_ri8_frame, "C02b.logical.ri8", nt_byte_binary_logical, NT_byte_binary_logical_N, dst_reg8, src_imm_u8,
    |vm: &mut VM, ctx: &mut Context, f, d: &Op, s: &Op| p_binary_logical__byte_binary_logical__byte_reg__COMMA__u_byte_num(CUR, vm, ctx, "", (0, f, 0), (0, d.b, 0), C, (0, s.imm as u8, 0)));
binop8!(c02b_logical_mi8, "C02b.logical.mi8", nt_byte_binary_logical, NT_byte_binary_logical_N, NT_byte_binary_logical_TEXT, opnd_mem, src_imm_u8, false, yes,
    |vm: &mut VM, ctx: &mut Context, f, d: &Op, s: &Op| p_binary_logical__byte_binary_logical__T_byte__memory_addr__COMMA__u_byte_num(CUR, vm, ctx, "", (0, f, 0), KB, (0, d.m, 0), C, (0, s.imm as u8, 0)));
binop8!(c02b_logical_li8, "C02b.logical.li8", nt_byte_binary_logical, NT_byte_binary_logical_N, NT_byte_binary_logical_TEXT, opnd_lab, src_imm_u8, false, yes,
    |vm: &mut VM, ctx: &mut Context, f, d: &Op, s: &Op| p_binary_logical__byte_binary_logical__byte_label__COMMA__u_byte_num(CUR, vm, ctx, "", (0, f, 0), (0, d.m, 0), C, (0, s.imm as u8, 0)));
binop16!(c02b_logical_rr16, "C02b.logical.rr16", nt_word_binary_logical, NT_word_binary_logical_N, NT_word_binary_logical_TEXT, dst_reg16, src_reg16, false, no,
    |vm: &mut VM, ctx: &mut Context, f, d: &Op, s: &Op| p_binary_logical__word_binary_logical__word_reg__COMMA__word_reg(CUR, vm, ctx, "", (0, f, 0), (0, d.w, 0), C, (0, s.w, 0)));
frame_only!(c02b_logical_rr16_frame, "C02b.logical.rr16", nt_word_binary_logical, NT_word_binary_logical_N, dst_reg16, src_reg16,
    |vm: &mut VM, ctx: &mut Context, f, d: &Op, s: &Op| p_binary_logical__word_binary_logical__word_reg__COMMA__word_reg(CUR, vm, ctx, "", (0, f, 0), (0, d.w, 0), C, (0, s.w, 0)));
binop16!(c02b_logical_rm16, "C02b.logical.rm16", nt_word_binary_logical, NT_word_binary_logical_N, NT_word_binary_logical_TEXT, dst_reg16, opnd_mem, false, yes,
    |vm: &mut VM, ctx: &mut Context, f, d: &Op, s: &Op| p_binary_logical__word_binary_logical__word_reg__COMMA__T_word__memory_addr(CUR, vm, ctx, "", (0, f, 0), (0, d.w, 0), C, KW, (0, s.m, 0)));
binop16!(c02b_logical_rl16, "C02b.logical.rl16", nt_word_binary_logical, NT_word_binary_logical_N, NT_word_binary_logical_TEXT, dst_reg16, opnd_lab, false, yes,
    |vm: &mut VM, ctx: &mut Context, f, d: &Op, s: &Op| p_binary_logical__word_binary_logical__word_reg__COMMA__word_label(CUR, vm, ctx, "", (0, f, 0), (0, d.w, 0), C, (0, s.m, 0)));
binop16!(c02b_logical_mr16, "C02b.logical.mr16", nt_word_binary_logical, NT_word_binary_logical_N, NT_word_binary_logical_TEXT, opnd_mem, src_reg16, false, yes,
    |vm: &mut VM, ctx: &mut Context, f, d: &Op, s: &Op| p_binary_logical__word_binary_logical__T_word__memory_addr__COMMA__word_reg(CUR, vm, ctx, "", (0, f, 0), KW, (0, d.m, 0), C, (0, s.w, 0)));
binop16!(c02b_logical_lr16, "C02b.logical.lr16", nt_word_binary_logical, NT_word_binary_logical_N, NT_word_binary_logical_TEXT, opnd_lab, src_reg16, false, yes,
    |vm: &mut VM, ctx: &mut Context, f, d: &Op, s: &Op| p_binary_logical__word_binary_logical__word_label__COMMA__word_reg(CUR, vm, ctx, "", (0, f, 0), (0, d.m, 0), C, (0, s.w, 0)));
binop16!(c02b_logical_ri16, "C02b.logical.ri16", nt_word_binary_logical, NT_word_binary_logical_N, NT_word_binary_logical_TEXT, dst_reg16, src_imm_u16, false, no,
    |vm: &mut VM, ctx: &mut Context, f, d: &Op, s: &Op| p_binary_logical__word_binary_logical__word_reg__COMMA__u_word_num(CUR, vm, ctx, "", (0, f, 0), (0, d.w, 0), C, (0, s.imm, 0)));
frame_only!(c02b_logical_ri16_frame, "C02b.logical.ri16", nt_word_binary_logical, NT_word_binary_logical_N, dst_reg16, src_imm_u16,
    |vm: &mut VM, ctx: &mut Context, f, d: &Op, s: &Op| p_binary_logical__word_binary_logical__word_reg__COMMA__u_word_num(CUR, vm, ctx, "", (0, f, 0), (0, d.w, 0), C, (0, s.imm, 0)));
binop16!(c02b_logical_mi16, "C02b.logical.mi16", nt_word_binary_logical, NT_word_binary_logical_N, NT_word_binary_logical_TEXT, opnd_mem, src_imm_u16, false, yes,
    |vm: &mut VM, ctx: &mut Context, f, d: &Op, s: &Op| p_binary_logical__word_binary_logical__T_word__memory_addr__COMMA__u_word_num(CUR, vm, ctx, "", (0, f, 0), KW, (0, d.m, 0), C, (0, s.imm, 0)));
binop16!(c02b_logical_li16, "C02b.logical.li16", nt_word_binary_logical, NT_word_binary_logical_N, NT_word_binary_logical_TEXT, opnd_lab, src_imm_u16, false, yes,
    |vm: &mut VM, ctx: &mut Context, f, d: &Op, s: &Op| p_binary_logical__word_binary_logical__word_label__COMMA__u_word_num(CUR, vm, ctx, "", (0, f, 0), (0, d.m, 0), C, (0, s.imm, 0)));

binop8!(c02b_shift_ri8, "C02b.shift.ri8", nt_byte_shift_rotate, NT_byte_shift_rotate_N, NT_byte_shift_rotate_TEXT, dst_reg8, src_imm_u8, false, no,
    |vm: &mut VM, ctx: &mut Context, f, d: &Op, s: &Op| p_shift_rotate__byte_shift_rotate__byte_reg__COMMA__u_byte_num(CUR, vm, ctx, "", (0, f, 0), (0, d.b, 0), C, (0, s.imm as u8, 0)));
frame_only!(c02b_shift_ri8_frame, "C02b.shift.ri8", nt_byte_shift_rotate, NT_byte_shift_rotate_N, dst_reg8, src_imm_u8,
    |vm: &mut VM, ctx: &mut Context, f, d: &Op, s: &Op| p_shift_rotate__byte_shift_rotate__byte_reg__COMMA__u_byte_num(CUR, vm, ctx, "", (0, f, 0), (0, d.b, 0), C, (0, s.imm as u8, 0)));
binop8!(c02b_shift_rc8, "C02b.shift.rc8", nt_byte_shift_rotate, NT_byte_shift_rotate_N, NT_byte_shift_rotate_TEXT, dst_reg8, src_cl, false, no,
    |vm: &mut VM, ctx: &mut Context, f, d: &Op, s: &Op| p_shift_rotate__byte_shift_rotate__byte_reg__COMMA__reg_cl(CUR, vm, ctx, "", (0, f, 0), (0, d.b, 0), C, (0, s.b, 0)));
frame_only!(c02b_shift_rc8_frame, "C02b.shift.rc8", nt_byte_shift_rotate, NT_byte_shift_rotate_N, dst_reg8, src_cl,
    |vm: &mut VM, ctx: &mut Context, f, d: &Op, s: &Op| p_shift_rotate__byte_shift_rotate__byte_reg__COMMA__reg_cl(CUR, vm, ctx, "", (0, f, 0), (0, d.b, 0), C, (0, s.b, 0)));
binop8!(c02b_shift_mi8, "C02b.shift.mi8", nt_byte_shift_rotate, NT_byte_shift_rotate_N, NT_byte_shift_rotate_TEXT, opnd_mem, src_imm_u8, false, yes,
    |vm: &mut VM, ctx: &mut Context, f, d: &Op, s: &Op| p_shift_rotate__byte_shift_rotate__T_byte__memory_addr__COMMA__u_byte_num(CUR, vm, ctx, "", (0, f, 0), KB, (0, d.m, 0), C, (0, s.imm as u8, 0)));
binop8!(c02b_shift_mc8, "C02b.shift.mc8", nt_byte_shift_rotate, NT_byte_shift_rotate_N, NT_byte_shift_rotate_TEXT, opnd_mem, src_cl, false, yes,
    |vm: &mut VM, ctx: &mut Context, f, d: &Op, s: &Op| p_shift_rotate__byte_shift_rotate__T_byte__memory_addr__COMMA__reg_cl(CUR, vm, ctx, "", (0, f, 0), KB, (0, d.m, 0), C, (0, s.b, 0)));
binop8!(c02b_shift_li8, "C02b.shift.li8", nt_byte_shift_rotate, NT_byte_shift_rotate_N, NT_byte_shift_rotate_TEXT, opnd_lab, src_imm_u8, false, yes,
    |vm: &mut VM, ctx: &mut Context, f, d: &Op, s: &Op| p_shift_rotate__byte_shift_rotate__byte_label__COMMA__u_byte_num(CUR, vm, ctx, "", (0, f, 0), (0, d.m, 0), C, (0, s.imm as u8, 0)));
binop8!(c02b_shift_lc8, "C02b.shift.lc8", nt_byte_shift_rotate, NT_byte_shift_rotate_N, NT_byte_shift_rotate_TEXT, opnd_lab, src_cl, false, yes,
    |vm: &mut VM, ctx: &mut Context, f, d: &Op, s: &Op| p_shift_rotate__byte_shift_rotate__byte_label__COMMA__reg_cl(CUR, vm, ctx, "", (0, f, 0), (0, d.m, 0), C, (0, s.b, 0)));
binop16!(c02b_shift_ri16, "C02b.shift.ri16", nt_word_shift_rotate, NT_word_shift_rotate_N, NT_word_shift_rotate_TEXT, dst_reg16, src_imm_u8, false, no,
    |vm: &mut VM, ctx: &mut Context, f, d: &Op, s: &Op| p_shift_rotate__word_shift_rotate__word_reg__COMMA__u_byte_num(CUR, vm, ctx, "", (0, f, 0), (0, d.w, 0), C, (0, s.imm as u8, 0)));
frame_only!(c02b_shift_ri16_frame, "C02b.shift.ri16", nt_word_shift_rotate, NT_word_shift_rotate_N, dst_reg16, src_imm_u8,
    |vm: &mut VM, ctx: &mut Context, f, d: &Op, s: &Op| p_shift_rotate__word_shift_rotate__word_reg__COMMA__u_byte_num(CUR, vm, ctx, "", (0, f, 0), (0, d.w, 0), C, (0, s.imm as u8, 0)));
binop16!(c02b_shift_rc16, "C02b.shift.rc16", nt_word_shift_rotate, NT_word_shift_rotate_N, NT_word_shift_rotate_TEXT, dst_reg16, src_cl, false, no,
    |vm: &mut VM, ctx: &mut Context, f, d: &Op, s: &Op| p_shift_rotate__word_shift_rotate__word_reg__COMMA__reg_cl(CUR, vm, ctx, "", (0, f, 0), (0, d.w, 0), C, (0, s.b, 0)));
frame_only!(c02b_shift_rc16_frame, "C02b.shift.rc16", nt_word_shift_rotate, NT_word_shift_rotate_N, dst_reg16, src_cl,
    |vm: &mut VM, ctx: &mut Context, f, d: &Op, s: &Op| p_shift_rotate__word_shift_rotate__word_reg__COMMA__reg_cl(CUR, vm, ctx, "", (0, f, 0), (0, d.w, 0), C, (0, s.b, 0)));
binop16!(c02b_shift_mi16, "C02b.shift.mi16", nt_word_shift_rotate, NT_word_shift_rotate_N, NT_word_shift_rotate_TEXT, opnd_mem, src_imm_u8, false, yes,
    |vm: &mut VM, ctx: &mut Context, f, d: &Op, s: &Op| p_shift_rotate__word_shift_rotate__T_word__memory_addr__COMMA__u_byte_num(CUR, vm, ctx, "", (0, f, 0), KW, (0, d.m, 0), C, (0, s.imm as u8, 0)));
binop16!(c02b_shift_mc16, "C02b.shift.mc16", nt_word_shift_rotate, NT_word_shift_rotate_N, NT_word_shift_rotate_TEXT, opnd_mem, src_cl, false, yes,
    |vm: &mut VM, ctx: &mut Context, f, d: &Op, s: &Op| p_shift_rotate__word_shift_rotate__T_word__memory_addr__COMMA__reg_cl(CUR, vm, ctx, "", (0, f, 0), KW, (0, d.m, 0), C, (0, s.b, 0)));
binop16!(c02b_shift_li16, "C02b.shift.li16", nt_word_shift_rotate, NT_word_shift_rotate_N, NT_word_shift_rotate_TEXT, opnd_lab, src_imm_u8, false, yes,
    |vm: &mut VM, ctx: &mut Context, f, d: &Op, s: &Op| p_shift_rotate__word_shift_rotate__word_label__COMMA__u_byte_num(CUR, vm, ctx, "", (0, f, 0), (0, d.m, 0), C, (0, s.imm as u8, 0)));
binop16!(c02b_shift_lc16, "C02b.shift.lc16", nt_word_shift_rotate, NT_word_shift_rotate_N, NT_word_shift_rotate_TEXT, opnd_lab, src_cl, false, yes,
    |vm: &mut VM, ctx: &mut Context, f, d: &Op, s: &Op| p_shift_rotate__word_shift_rotate__word_label__COMMA__reg_cl(CUR, vm, ctx, "", (0, f, 0), (0, d.m, 0), C, (0, s.b, 0)));

notop!(c02b_not_r8, "C02b.not.r8", 8, dst_reg8,
    |vm: &mut VM, ctx: &mut Context, d: &Op| p_not__T_not__byte_reg(CUR, vm, ctx, "", (0, "not", 0), (0, d.b, 0)));
notop!(c02b_not_m8, "C02b.not.m8", 8, opnd_mem,
    |vm: &mut VM, ctx: &mut Context, d: &Op| p_not__T_not__T_byte__memory_addr(CUR, vm, ctx, "", (0, "not", 0), KB, (0, d.m, 0)));
notop!(c02b_not_l8, "C02b.not.l8", 8, opnd_lab,
    |vm: &mut VM, ctx: &mut Context, d: &Op| p_not__T_not__byte_label(CUR, vm, ctx, "", (0, "not", 0), (0, d.m, 0)));
notop!(c02b_not_r16, "C02b.not.r16", 16, dst_reg16,
    |vm: &mut VM, ctx: &mut Context, d: &Op| p_not__T_not__word_reg(CUR, vm, ctx, "", (0, "not", 0), (0, d.w, 0)));
notop!(c02b_not_m16, "C02b.not.m16", 16, opnd_mem,
    |vm: &mut VM, ctx: &mut Context, d: &Op| p_not__T_not__T_word__memory_addr(CUR, vm, ctx, "", (0, "not", 0), KW, (0, d.m, 0)));
notop!(c02b_not_l16, "C02b.not.l16", 16, opnd_lab,
    |vm: &mut VM, ctx: &mut Context, d: &Op| p_not__T_not__word_label(CUR, vm, ctx, "", (0, "not", 0), (0, d.m, 0)));
#[cfg_attr(kani, kani::proof)]
pub fn c02b_twin_reach() {
    let mut vm = mk_vm();
    let mut ctx = mk_ctx();
    let d = opnd_mem(&mut vm, &mut ctx);
    vassert!("C02b.twin.must_fail", d.m != 77);
    done_ctx(ctx);
    done(vm);
}

pub const TABLE: &[(&str, fn())] = &[
    ("c02b_logical_rr8", c02b_logical_rr8),
    ("c02b_logical_rr8_frame", c02b_logical_rr8_frame),
    ("c02b_logical_rm8", c02b_logical_rm8),
    ("c02b_logical_rl8", c02b_logical_rl8),
    ("c02b_logical_mr8", c02b_logical_mr8),
    ("c02b_logical_lr8", c02b_logical_lr8),
    ("c02b_logical_ri8", c02b_logical_ri8),
    ("c02b_logical_ri8_frame", c02b_logical_ri8_frame),
    ("c02b_logical_mi8", c02b_logical_mi8),
    ("c02b_logical_li8", c02b_logical_li8),
    ("c02b_logical_rr16", c02b_logical_rr16),
    ("c02b_logical_rr16_frame", c02b_logical_rr16_frame),
    ("c02b_logical_rm16", c02b_logical_rm16),
    ("c02b_logical_rl16", c02b_logical_rl16),
    ("c02b_logical_mr16", c02b_logical_mr16),
    ("c02b_logical_lr16", c02b_logical_lr16),
    ("c02b_logical_ri16", c02b_logical_ri16),
    ("c02b_logical_ri16_frame", c02b_logical_ri16_frame),
    ("c02b_logical_mi16", c02b_logical_mi16),
    ("c02b_logical_li16", c02b_logical_li16),
    ("c02b_shift_ri8", c02b_shift_ri8),
    ("c02b_shift_ri8_frame", c02b_shift_ri8_frame),
    ("c02b_shift_rc8", c02b_shift_rc8),
    ("c02b_shift_rc8_frame", c02b_shift_rc8_frame),
    ("c02b_shift_mi8", c02b_shift_mi8),
    ("c02b_shift_mc8", c02b_shift_mc8),
    ("c02b_shift_li8", c02b_shift_li8),
    ("c02b_shift_lc8", c02b_shift_lc8),
    ("c02b_shift_ri16", c02b_shift_ri16),
    ("c02b_shift_ri16_frame", c02b_shift_ri16_frame),
    ("c02b_shift_rc16", c02b_shift_rc16),
    ("c02b_shift_rc16_frame", c02b_shift_rc16_frame),
    ("c02b_shift_mi16", c02b_shift_mi16),
    ("c02b_shift_mc16", c02b_shift_mc16),
    ("c02b_shift_li16", c02b_shift_li16),
    ("c02b_shift_lc16", c02b_shift_lc16),
    ("c02b_not_r8", c02b_not_r8),
    ("c02b_not_m8", c02b_not_m8),
    ("c02b_not_l8", c02b_not_l8),
    ("c02b_not_r16", c02b_not_r16),
    ("c02b_not_m16", c02b_not_m16),
    ("c02b_not_l16", c02b_not_l16),
    ("c02b_twin_reach", c02b_twin_reach),
];
