// C07 (B-harnesses): mnemonic -> kernel table, and the REP / REPE / REPNE protocol.
use crate::{vassert, vassert_kf, vassume, vcell, vcover, vsym};

const KW8: (usize, &str, usize) = (0, "byte", 0);
const KW16: (usize, &str, usize) = (0, "word", 0);

fn string_op(sel: u8, vm: &mut VM, ctx: &mut Context) -> StringOp {
    match sel {
        0 => p_string_instructions__T_movs__T_byte(CUR, vm, ctx, "", (0, "movs", 0), KW8),
        1 => p_string_instructions__T_movs__T_word(CUR, vm, ctx, "", (0, "movs", 0), KW16),
        2 => p_string_instructions__T_lods__T_byte(CUR, vm, ctx, "", (0, "lods", 0), KW8),
        3 => p_string_instructions__T_lods__T_word(CUR, vm, ctx, "", (0, "lods", 0), KW16),
        4 => p_string_instructions__T_stos__T_byte(CUR, vm, ctx, "", (0, "stos", 0), KW8),
        5 => p_string_instructions__T_stos__T_word(CUR, vm, ctx, "", (0, "stos", 0), KW16),
        6 => p_string_instructions__T_cmps__T_byte(CUR, vm, ctx, "", (0, "cmps", 0), KW8),
        7 => p_string_instructions__T_cmps__T_word(CUR, vm, ctx, "", (0, "cmps", 0), KW16),
        8 => p_string_instructions__T_scas__T_byte(CUR, vm, ctx, "", (0, "scas", 0), KW8),
        _ => p_string_instructions__T_scas__T_word(CUR, vm, ctx, "", (0, "scas", 0), KW16),
    }
}

/// every mnemonic/width selects its own kernel, and selecting executes nothing
#[cfg_attr(kani, kani::proof)]
pub fn c07b_mnemonic_table() {
    let mut vm = mk_vm();
    let mut ctx = mk_ctx();
    vsym!(w_sel: u8);
    vassume!(w_sel < 10);
    let pre = regs(&vm);
    let f = string_op(w_sel, &mut vm, &mut ctx);
    let expect: [StringOp; 10] = [movs_byte, movs_word, loads_byte, loads_word, stos_byte, stos_word, cmps_byte, cmps_word, scas_byte, scas_word];
    vassert!("C07b.table.kernel", f as usize == expect[w_sel as usize] as usize);
    vassert!("C07b.table.selection_has_no_effect", regs(&vm) == pre);
    done_ctx(ctx);
    done(vm);
}

/// scripted body: counts its executions in AX and leaves ZF = bit <execution number> of BX, so that
/// the prefix logic is exercised with an arbitrary sequence of comparison outcomes
fn scripted_body(vm: &mut VM) {
    let n = vm.arch.ax;
    let z = (vm.arch.bx >> (n & 15)) & 1 != 0;
    vm.arch.flag = (vm.arch.flag & !0x40) | if z { 0x40 } else { 0 };
    vm.arch.ax = n.wrapping_add(1);
}

fn rep_protocol(bound: u16) {
    let mut vm = mk_vm();
    let mut ctx = mk_ctx();
    vsym!(w_prefix: u8); // 0 none, 1 rep, 2 repz, 3 repnz
    vassume!(w_prefix < 4);
    vm.arch.ax = 0;
    let pre = regs(&vm);
    vassume!(pre.cx <= bound);
    let f: StringOp = scripted_body;
    // the harness plays the driver: REPEAT means "parse the same line again"
    let mut rounds: u16 = 0;
    let mut st = State::REPEAT;
    while st == State::REPEAT && rounds < bound + 2 {
        st = match w_prefix {
            0 => p_string__string_instructions(CUR, &mut vm, &mut ctx, "", (0, f, 0)),
            1 => p_string__T_rep__string_instructions(CUR, &mut vm, &mut ctx, "", (0, "rep", 0), (0, f, 0)),
            2 => p_string__T_repz__string_instructions(CUR, &mut vm, &mut ctx, "", (0, "repz", 0), (0, f, 0)),
            _ => p_string__T_repnz__string_instructions(CUR, &mut vm, &mut ctx, "", (0, "repnz", 0), (0, f, 0)),
        };
        rounds += 1;
    }
    // reference: while CX != 0 { body; CX -= 1; if (repe && !ZF) || (repne && ZF) break }
    let mut n: u16 = 0;
    let mut cx = pre.cx;
    let mut zf = pre.flag & 0x40 != 0;
    if w_prefix == 0 {
        zf = (pre.bx >> 0) & 1 != 0;
        n = 1;
    } else {
        while cx != 0 {
            zf = (pre.bx >> (n & 15)) & 1 != 0;
            n += 1;
            cx -= 1;
            if (w_prefix == 2 && !zf) || (w_prefix == 3 && zf) {
                break;
            }
        }
    }
    let mut er = pre;
    er.ax = n;
    er.cx = cx;
    er.flag = (pre.flag & !0x40) | if zf { 0x40 } else { 0 };
    vassert!("C07b.rep.completes_with_next", st == State::NEXT);
    vassert!("C07b.rep.executions_cx_flags_frame", regs(&vm) == er);
    vcover!("C07b.rep.cover.cx_zero", w_prefix == 1 && pre.cx == 0);
    vcover!("C07b.rep.cover.early_exit", w_prefix == 2 && pre.cx == bound && n == 2);
    vcover!("C07b.rep.cover.full_count", w_prefix == 3 && pre.cx == bound && n == bound);
    done_ctx(ctx);
    done(vm);
}

#[cfg_attr(kani, kani::proof)]
#[cfg_attr(kani, kani::unwind(7))]
pub fn c07b_rep_protocol__q() {
    rep_protocol(3);
}

#[cfg_attr(kani, kani::proof)]
#[cfg_attr(kani, kani::unwind(12))]
pub fn c07b_rep_protocol__t() {
    rep_protocol(8);
}

pub const TABLE: &[(&str, fn())] = &[
    ("c07b_mnemonic_table", c07b_mnemonic_table),
    ("c07b_rep_protocol__q", c07b_rep_protocol__q),
    ("c07b_rep_protocol__t", c07b_rep_protocol__t),
];
