// C03 (A-harnesses): MUL/IMUL/DIV/IDIV, AAA/AAS/DAA/DAS/AAM/AAD, CBW/CWD kernels vs. the
// reference, for every AX / DX:AX, operand, flag word, arbitrary registers and memory.
use crate::instructions::arithmetic::*;
use crate::verif_rt::*;
use crate::{vassert, vassert_kf, vassume, vcell, vcover, vsym};

// frame shared by all: bits outside the six status flags keep their value, only `allowed`
// registers change
macro_rules! frame {
    ($name:expr, $pre:expr, $post:expr, ax: $ax:expr, dx: $dx:expr) => {{
        vassert!(concat!("C03.", $name, ".otherflags"), $post.flag & !STATUS == $pre.flag & !STATUS);
        let mut p2 = $post;
        p2.flag = $pre.flag;
        if $ax {
            p2.ax = $pre.ax;
        }
        if $dx {
            p2.dx = $pre.dx;
        }
        vassert!(concat!("C03.", $name, ".regs"), p2 == $pre);
    }};
}

macro_rules! mem_frame {
    ($h:ident, $name:expr, $call:expr) => {
        #[cfg_attr(kani, kani::proof)]
        pub fn $h() {
            let mut vm = mk_vm();
            vsym!(w_op: u16);
            vsym!(w_p: usize);
            vassume!(w_p < MBU);
            vcell!(vm, w_p, w_pv);
            ($call)(&mut vm, w_op);
            vassert!(concat!("C03.", $name, ".mem"), vm.mem[w_p] == w_pv);
            done(vm);
        }
    };
}

// ---------------------------------------------------------------- MUL / IMUL
#[cfg_attr(kani, kani::proof)]
pub fn c03_byte_mul() {
    let mut vm = mk_vm();
    vsym!(w_op: u8);
    let pre = regs(&vm);
    let mut v = w_op;
    let r = byte_mul(&mut vm, &mut v);
    let post = regs(&vm);
    let prod: u16 = (pre.ax & 0xFF) * (w_op as u16);
    let sig = prod >> 8 != 0;
    vassert!("C03.byte_mul.ok", r.is_ok());
    vassert!("C03.byte_mul.operand_kept", v == w_op);
    vassert!("C03.byte_mul.product", post.ax == prod);
    vassert!("C03.byte_mul.CF", fl_of(post.flag).cf == sig);
    vassert!("C03.byte_mul.OF", fl_of(post.flag).of == sig);
    vcover!("C03.byte_mul.cover.significant", sig);
    frame!("byte_mul", pre, post, ax: true, dx: false);
    done(vm);
}

#[cfg_attr(kani, kani::proof)]
pub fn c03_byte_imul() {
    let mut vm = mk_vm();
    vsym!(w_op: u8);
    let pre = regs(&vm);
    let mut v = w_op;
    let r = byte_imul(&mut vm, &mut v);
    let post = regs(&vm);
    let prod: i16 = (pre.ax as u8 as i8 as i16) * (w_op as i8 as i16);
    let sig = prod != (prod as i8 as i16);
    vassert!("C03.byte_imul.ok", r.is_ok());
    vassert!("C03.byte_imul.operand_kept", v == w_op);
    vassert!("C03.byte_imul.product", post.ax == prod as u16);
    // known finding: CF/OF are derived from the *previous* AH (set unless it was 0xFF); the
    // repository test test_unary_arithmetic pins that for 4 * -4, so it is not repaired.
    let kf_region = ((pre.ax >> 8) != 0xFF) != sig;
    vassert_kf!("C03.byte_imul.CF", fl_of(post.flag).cf == sig, KF_C03_byte_imul_CFOF, kf_region);
    vassert_kf!("C03.byte_imul.OF", fl_of(post.flag).of == sig, KF_C03_byte_imul_CFOF, kf_region);
    vcover!("C03.byte_imul.cover.negative_fits", prod < 0 && !sig);
    frame!("byte_imul", pre, post, ax: true, dx: false);
    done(vm);
}

#[cfg_attr(kani, kani::proof)]
pub fn c03_word_mul() {
    let mut vm = mk_vm();
    vsym!(w_op: u16);
    let pre = regs(&vm);
    let mut v = w_op;
    let r = word_mul(&mut vm, &mut v);
    let post = regs(&vm);
    let prod: u32 = (pre.ax as u32) * (w_op as u32);
    let sig = prod >> 16 != 0;
    vassert!("C03.word_mul.ok", r.is_ok());
    vassert!("C03.word_mul.operand_kept", v == w_op);
    vassert!("C03.word_mul.product_lo", post.ax == prod as u16);
    vassert!("C03.word_mul.product_hi", post.dx == (prod >> 16) as u16);
    vassert!("C03.word_mul.CF", fl_of(post.flag).cf == sig);
    vassert!("C03.word_mul.OF", fl_of(post.flag).of == sig);
    frame!("word_mul", pre, post, ax: true, dx: true);
    done(vm);
}

#[cfg_attr(kani, kani::proof)]
pub fn c03_word_imul() {
    let mut vm = mk_vm();
    vsym!(w_op: u16);
    let pre = regs(&vm);
    let mut v = w_op;
    let r = word_imul(&mut vm, &mut v);
    let post = regs(&vm);
    let prod: i32 = (pre.ax as i16 as i32) * (w_op as i16 as i32);
    let sig = prod != (prod as i16 as i32);
    vassert!("C03.word_imul.ok", r.is_ok());
    vassert!("C03.word_imul.operand_kept", v == w_op);
    vassert!("C03.word_imul.product_lo", post.ax == prod as u16);
    vassert!("C03.word_imul.product_hi", post.dx == ((prod as u32) >> 16) as u16);
    vassert!("C03.word_imul.CF", fl_of(post.flag).cf == sig);
    vassert!("C03.word_imul.OF", fl_of(post.flag).of == sig);
    vcover!("C03.word_imul.cover.negative_fits", prod < 0 && !sig);
    frame!("word_imul", pre, post, ax: true, dx: true);
    done(vm);
}

// ---------------------------------------------------------------- DIV / IDIV
// The oracle never divides (a second divider makes the query an equivalence check of two
// division circuits): q, r are THE quotient and remainder of n by d iff n = q*d + r with
// |r| < |d| and r = 0 or sign(r) = sign(n); "q does not fit" is a comparison of |n| with a
// multiple of |d|.
#[cfg_attr(kani, kani::proof)]
pub fn c03_byte_div() {
    let mut vm = mk_vm();
    vsym!(w_op: u8);
    let pre = regs(&vm);
    let mut v = w_op;
    let r = byte_div(&mut vm, &mut v);
    let post = regs(&vm);
    let n = pre.ax as u32;
    let d = w_op as u32;
    if d == 0 {
        vassert!("C03.byte_div.zero_divisor_is_error", r.is_err());
    } else if n >= d * 256 {
        vassert!("C03.byte_div.overflow_is_error", r.is_err());
        vcover!("C03.byte_div.cover.overflow", true);
    } else {
        let q = (post.ax & 0xFF) as u32;
        let rem = (post.ax >> 8) as u32;
        vassert!("C03.byte_div.ok", r.is_ok());
        vassert!("C03.byte_div.quotient_remainder", q * d + rem == n && rem < d);
    }
    vassert!("C03.byte_div.operand_kept", v == w_op);
    frame!("byte_div", pre, post, ax: true, dx: false);
    done(vm);
}

#[cfg_attr(kani, kani::proof)]
pub fn c03_byte_idiv() {
    let mut vm = mk_vm();
    vsym!(w_op: u8);
    let pre = regs(&vm);
    let mut v = w_op;
    let r = byte_idiv(&mut vm, &mut v);
    let post = regs(&vm);
    let n = pre.ax as i16 as i32;
    let d = w_op as i8 as i32;
    let (an, ad) = (n.abs(), d.abs());
    let neg = (n < 0) != (d < 0);
    if d == 0 {
        vassert!("C03.byte_idiv.zero_divisor_is_error", r.is_err());
    } else if (!neg && an >= 128 * ad) || (neg && an >= 129 * ad) {
        vassert!("C03.byte_idiv.overflow_is_error", r.is_err());
        vcover!("C03.byte_idiv.cover.overflow", true);
    } else {
        let q = post.ax as u8 as i8 as i32;
        let rem = (post.ax >> 8) as u8 as i8 as i32;
        let exact = q * d + rem == n && rem.abs() < ad && (rem == 0 || (rem < 0) == (n < 0));
        if neg && an >= 128 * ad {
            // quotient is exactly -128: the 1979 manual says divide error, later documents say it fits
            vassert!("C03.byte_idiv.min_quotient", r.is_err() || exact);
        } else {
            vassert!("C03.byte_idiv.ok", r.is_ok());
            vassert!("C03.byte_idiv.quotient_remainder", exact);
            vcover!("C03.byte_idiv.cover.negative_remainder", rem < 0);
        }
    }
    vassert!("C03.byte_idiv.operand_kept", v == w_op);
    frame!("byte_idiv", pre, post, ax: true, dx: false);
    done(vm);
}

// Word forms: a 32-bit divider against a 64-bit multiplier does not finish in either back end
// (probe: > 300 s on cadical, z3 and cvc5), so the reference for the word forms uses Rust's own
// `/` and `%` on the same operands at the same width (the solver shares the division term; z3
// ~50 s).  Trusted here: the semantics of Rust's integer division.
#[cfg_attr(kani, kani::proof)]
pub fn c03_word_div() {
    let mut vm = mk_vm();
    vsym!(w_op: u16);
    let pre = regs(&vm);
    let mut v = w_op;
    let r = word_div(&mut vm, &mut v);
    let post = regs(&vm);
    let n = ((pre.dx as u32) << 16) as u32 | pre.ax as u32;
    if w_op == 0 {
        vassert!("C03.word_div.zero_divisor_is_error", r.is_err());
    } else {
        let q = n / w_op as u32;
        let rem = n % w_op as u32;
        if q > 0xFFFF {
            vassert!("C03.word_div.overflow_is_error", r.is_err());
            vcover!("C03.word_div.cover.overflow", true);
        } else {
            vassert!("C03.word_div.ok", r.is_ok());
            vassert!("C03.word_div.quotient", post.ax as u32 == q);
            vassert!("C03.word_div.remainder", post.dx as u32 == rem);
        }
    }
    vassert!("C03.word_div.operand_kept", v == w_op);
    frame!("word_div", pre, post, ax: true, dx: true);
    done(vm);
}

#[cfg_attr(kani, kani::proof)]
pub fn c03_word_idiv() {
    let mut vm = mk_vm();
    vsym!(w_op: u16);
    let pre = regs(&vm);
    let mut v = w_op;
    let r = word_idiv(&mut vm, &mut v);
    let post = regs(&vm);
    let n = ((pre.dx as u32) << 16 | pre.ax as u32) as i32 as i64;
    if w_op == 0 {
        vassert!("C03.word_idiv.zero_divisor_is_error", r.is_err());
    } else {
        let q = n / (w_op as i16 as i64);
        let rem = n % (w_op as i16 as i64);
        if q > 32767 || q < -32768 {
            vassert!("C03.word_idiv.overflow_is_error", r.is_err());
            vcover!("C03.word_idiv.cover.min_by_minus_one", n == -2147483648 && w_op == 0xFFFF);
        } else if q == -32768 {
            vassert!("C03.word_idiv.min_quotient", r.is_err() || (post.ax == 0x8000 && post.dx == rem as u16));
        } else {
            vassert!("C03.word_idiv.ok", r.is_ok());
            vassert!("C03.word_idiv.quotient", post.ax == q as u16);
            vassert!("C03.word_idiv.remainder", post.dx == rem as u16);
        }
    }
    vassert!("C03.word_idiv.operand_kept", v == w_op);
    frame!("word_idiv", pre, post, ax: true, dx: true);
    done(vm);
}

// ---------------------------------------------------------------- decimal adjusts
#[cfg_attr(kani, kani::proof)]
pub fn c03_aaa() {
    let mut vm = mk_vm();
    let pre = regs(&vm);
    aaa(&mut vm);
    let post = regs(&vm);
    let al = pre.ax as u8;
    let ah = (pre.ax >> 8) as u8;
    let adj = (al & 0x0F) > 9 || fl_of(pre.flag).af;
    let (eal, eah) = if adj { (al.wrapping_add(6) & 0x0F, ah.wrapping_add(1)) } else { (al & 0x0F, ah) };
    vassert!("C03.aaa.AL", post.ax as u8 == eal);
    vassert!("C03.aaa.AH", (post.ax >> 8) as u8 == eah);
    vassert!("C03.aaa.AF", fl_of(post.flag).af == adj);
    vassert!("C03.aaa.CF", fl_of(post.flag).cf == adj);
    vcover!("C03.aaa.cover.no_adjust_high_nibble", !adj && al > 0x0F);
    frame!("aaa", pre, post, ax: true, dx: false);
    done(vm);
}

#[cfg_attr(kani, kani::proof)]
pub fn c03_aas() {
    let mut vm = mk_vm();
    let pre = regs(&vm);
    aas(&mut vm);
    let post = regs(&vm);
    let al = pre.ax as u8;
    let ah = (pre.ax >> 8) as u8;
    let adj = (al & 0x0F) > 9 || fl_of(pre.flag).af;
    let (eal, eah) = if adj { (al.wrapping_sub(6) & 0x0F, ah.wrapping_sub(1)) } else { (al & 0x0F, ah) };
    vassert!("C03.aas.AL", post.ax as u8 == eal);
    vassert!("C03.aas.AH", (post.ax >> 8) as u8 == eah);
    vassert!("C03.aas.AF", fl_of(post.flag).af == adj);
    vassert!("C03.aas.CF", fl_of(post.flag).cf == adj);
    frame!("aas", pre, post, ax: true, dx: false);
    done(vm);
}

/// DAA / DAS: the 1979 manual tests the *adjusted* AL against 9Fh, later Intel documents test the
/// *original* AL against 99h (and let the +-6 step carry into CF).  Any documented outcome is accepted.
fn ref_da(al: u8, cf: bool, af: bool, sub: bool, variant: u8) -> (u8, bool, bool) {
    let mut r = al;
    let mut ncf = false;
    let low = (al & 0x0F) > 9 || af;
    if low {
        let (t, c) = if sub { al.overflowing_sub(6) } else { al.overflowing_add(6) };
        r = t;
        if variant == 2 {
            ncf = cf || c;
        }
    }
    let high = match variant {
        0 => r > 0x9F || cf,
        _ => al > 0x99 || cf,
    };
    if high {
        r = if sub { r.wrapping_sub(0x60) } else { r.wrapping_add(0x60) };
        ncf = true;
    }
    (r, ncf, low)
}

macro_rules! da_harness {
    ($h:ident, $name:expr, $f:ident, $sub:expr) => {
        #[cfg_attr(kani, kani::proof)]
        pub fn $h() {
            let mut vm = mk_vm();
            let pre = regs(&vm);
            $f(&mut vm);
            let post = regs(&vm);
            let al = pre.ax as u8;
            let f = fl_of(pre.flag);
            let got = (post.ax as u8, fl_of(post.flag).cf, fl_of(post.flag).af);
            let v0 = ref_da(al, f.cf, f.af, $sub, 0);
            let v1 = ref_da(al, f.cf, f.af, $sub, 1);
            let v2 = ref_da(al, f.cf, f.af, $sub, 2);
            vassert!(concat!("C03.", $name, ".AL_CF_AF"), got == v0 || got == v1 || got == v2);
            vassert!(concat!("C03.", $name, ".AH_kept"), post.ax >> 8 == pre.ax >> 8);
            let r = post.ax as u8;
            vassert!(concat!("C03.", $name, ".SF"), fl_of(post.flag).sf == (r & 0x80 != 0));
            vassert!(concat!("C03.", $name, ".ZF"), fl_of(post.flag).zf == (r == 0));
            vassert!(concat!("C03.", $name, ".PF"), fl_of(post.flag).pf == par8(r));
            vcover!(concat!("C03.", $name, ".cover.both_adjusts"), v0.1 && v0.2);
            frame!($name, pre, post, ax: true, dx: false);
            done(vm);
        }
    };
}
da_harness!(c03_daa, "daa", daa, false);
da_harness!(c03_das, "das", das, true);

#[cfg_attr(kani, kani::proof)]
pub fn c03_aam() {
    let mut vm = mk_vm();
    let pre = regs(&vm);
    aam(&mut vm);
    let post = regs(&vm);
    let al = pre.ax as u8;
    let (eah, eal) = (al / 10, al % 10);
    vassert!("C03.aam.AH", (post.ax >> 8) as u8 == eah);
    vassert!("C03.aam.AL", post.ax as u8 == eal);
    vassert!("C03.aam.SF", fl_of(post.flag).sf == (eal & 0x80 != 0));
    vassert!("C03.aam.ZF", fl_of(post.flag).zf == (eal == 0));
    vassert!("C03.aam.PF", fl_of(post.flag).pf == par8(eal));
    vcover!("C03.aam.cover.al_zero_ah_nonzero", eal == 0 && eah != 0);
    frame!("aam", pre, post, ax: true, dx: false);
    done(vm);
}

#[cfg_attr(kani, kani::proof)]
pub fn c03_aad() {
    let mut vm = mk_vm();
    let pre = regs(&vm);
    aad(&mut vm);
    let post = regs(&vm);
    let al = pre.ax as u8;
    let ah = (pre.ax >> 8) as u8;
    let eal = ah.wrapping_mul(10).wrapping_add(al);
    vassert!("C03.aad.AL", post.ax as u8 == eal);
    vassert!("C03.aad.AH", post.ax >> 8 == 0);
    vassert!("C03.aad.SF", fl_of(post.flag).sf == (eal & 0x80 != 0));
    vassert!("C03.aad.ZF", fl_of(post.flag).zf == (eal == 0));
    vassert!("C03.aad.PF", fl_of(post.flag).pf == par8(eal));
    frame!("aad", pre, post, ax: true, dx: false);
    done(vm);
}

#[cfg_attr(kani, kani::proof)]
pub fn c03_cbw() {
    let mut vm = mk_vm();
    let pre = regs(&vm);
    cbw(&mut vm);
    let post = regs(&vm);
    vassert!("C03.cbw.AX", post.ax == (pre.ax as u8 as i8 as i16) as u16);
    vassert!("C03.cbw.flags", post.flag == pre.flag);
    frame!("cbw", pre, post, ax: true, dx: false);
    done(vm);
}

#[cfg_attr(kani, kani::proof)]
pub fn c03_cwd() {
    let mut vm = mk_vm();
    let pre = regs(&vm);
    cwd(&mut vm);
    let post = regs(&vm);
    vassert!("C03.cwd.DX", post.dx == if pre.ax & 0x8000 != 0 { 0xFFFF } else { 0 });
    vassert!("C03.cwd.AX", post.ax == pre.ax);
    vassert!("C03.cwd.flags", post.flag == pre.flag);
    frame!("cwd", pre, post, ax: false, dx: true);
    done(vm);
}

mem_frame!(c03_frame_byte_mul, "byte_mul", |vm: &mut crate::vm::VM, o: u16| { let mut v = o as u8; let _ = byte_mul(vm, &mut v); });
mem_frame!(c03_frame_byte_imul, "byte_imul", |vm: &mut crate::vm::VM, o: u16| { let mut v = o as u8; let _ = byte_imul(vm, &mut v); });
mem_frame!(c03_frame_word_mul, "word_mul", |vm: &mut crate::vm::VM, o: u16| { let mut v = o; let _ = word_mul(vm, &mut v); });
mem_frame!(c03_frame_word_imul, "word_imul", |vm: &mut crate::vm::VM, o: u16| { let mut v = o; let _ = word_imul(vm, &mut v); });
mem_frame!(c03_frame_byte_div, "byte_div", |vm: &mut crate::vm::VM, o: u16| { let mut v = o as u8; let _ = byte_div(vm, &mut v); });
mem_frame!(c03_frame_byte_idiv, "byte_idiv", |vm: &mut crate::vm::VM, o: u16| { let mut v = o as u8; let _ = byte_idiv(vm, &mut v); });
mem_frame!(c03_frame_word_div, "word_div", |vm: &mut crate::vm::VM, o: u16| { let mut v = o; let _ = word_div(vm, &mut v); });
mem_frame!(c03_frame_word_idiv, "word_idiv", |vm: &mut crate::vm::VM, o: u16| { let mut v = o; let _ = word_idiv(vm, &mut v); });
mem_frame!(c03_frame_aaa, "aaa", |vm: &mut crate::vm::VM, _o: u16| aaa(vm));
mem_frame!(c03_frame_aas, "aas", |vm: &mut crate::vm::VM, _o: u16| aas(vm));
mem_frame!(c03_frame_daa, "daa", |vm: &mut crate::vm::VM, _o: u16| daa(vm));
mem_frame!(c03_frame_das, "das", |vm: &mut crate::vm::VM, _o: u16| das(vm));
mem_frame!(c03_frame_aam, "aam", |vm: &mut crate::vm::VM, _o: u16| aam(vm));
mem_frame!(c03_frame_aad, "aad", |vm: &mut crate::vm::VM, _o: u16| aad(vm));
mem_frame!(c03_frame_cbw, "cbw", |vm: &mut crate::vm::VM, _o: u16| cbw(vm));
mem_frame!(c03_frame_cwd, "cwd", |vm: &mut crate::vm::VM, _o: u16| cwd(vm));

#[cfg_attr(kani, kani::proof)]
pub fn c03_twin_reach() {
    let mut vm = mk_vm();
    vsym!(w_op: u16);
    vassume!(w_op != 0);
    let mut v = w_op;
    let r = word_div(&mut vm, &mut v);
    vassume!(r.is_ok());
    vassert!("C03.twin.must_fail", false);
    done(vm);
}

pub const TABLE: &[(&str, fn())] = &[
    ("c03_byte_mul", c03_byte_mul),
    ("c03_byte_imul", c03_byte_imul),
    ("c03_word_mul", c03_word_mul),
    ("c03_word_imul", c03_word_imul),
    ("c03_byte_div", c03_byte_div),
    ("c03_byte_idiv", c03_byte_idiv),
    ("c03_word_div", c03_word_div),
    ("c03_word_idiv", c03_word_idiv),
    ("c03_aaa", c03_aaa),
    ("c03_aas", c03_aas),
    ("c03_daa", c03_daa),
    ("c03_das", c03_das),
    ("c03_aam", c03_aam),
    ("c03_aad", c03_aad),
    ("c03_cbw", c03_cbw),
    ("c03_cwd", c03_cwd),
    ("c03_frame_byte_mul", c03_frame_byte_mul),
    ("c03_frame_byte_imul", c03_frame_byte_imul),
    ("c03_frame_word_mul", c03_frame_word_mul),
    ("c03_frame_word_imul", c03_frame_word_imul),
    ("c03_frame_byte_div", c03_frame_byte_div),
    ("c03_frame_byte_idiv", c03_frame_byte_idiv),
    ("c03_frame_word_div", c03_frame_word_div),
    ("c03_frame_word_idiv", c03_frame_word_idiv),
    ("c03_frame_aaa", c03_frame_aaa),
    ("c03_frame_aas", c03_frame_aas),
    ("c03_frame_daa", c03_frame_daa),
    ("c03_frame_das", c03_frame_das),
    ("c03_frame_aam", c03_frame_aam),
    ("c03_frame_aad", c03_frame_aad),
    ("c03_frame_cbw", c03_frame_cbw),
    ("c03_frame_cwd", c03_frame_cwd),
    ("c03_twin_reach", c03_twin_reach),
];
