// C05: MOV (22 productions), XCHG (6), PUSH/POP, PUSHF/POPF, LAHF/SAHF, XLAT.
// mov/xchg instantiations written by lib/mk_interp_harness.py; the rest comes from interp_c05_hand.rs.in.
use crate::{vassert, vassume, vcell, vcover, vsym};

movop!(c05_mov_rr8, "C05.mov.rr8", 8, dst_reg8, src_reg8, no,
    |vm: &mut VM, ctx: &mut Context, d: &Op, s: &Op| p_mov__T_mov__byte_reg__COMMA__byte_reg(CUR, vm, ctx, "", (0, "mov", 0), (0, d.b, 0), C, (0, s.b, 0)));
movop!(c05_mov_rr16, "C05.mov.rr16", 16, dst_reg16, src_reg16, no,
    |vm: &mut VM, ctx: &mut Context, d: &Op, s: &Op| p_mov__T_mov__word_reg__COMMA__word_reg(CUR, vm, ctx, "", (0, "mov", 0), (0, d.w, 0), C, (0, s.w, 0)));
movop!(c05_mov_rm8, "C05.mov.rm8", 8, dst_reg8, opnd_mem, yes,
    |vm: &mut VM, ctx: &mut Context, d: &Op, s: &Op| p_mov__T_mov__byte_reg__COMMA__T_byte__memory_addr(CUR, vm, ctx, "", (0, "mov", 0), (0, d.b, 0), C, KB, (0, s.m, 0)));
movop!(c05_mov_rm16, "C05.mov.rm16", 16, dst_reg16, opnd_mem, yes,
    |vm: &mut VM, ctx: &mut Context, d: &Op, s: &Op| p_mov__T_mov__word_reg__COMMA__T_word__memory_addr(CUR, vm, ctx, "", (0, "mov", 0), (0, d.w, 0), C, KW, (0, s.m, 0)));
movop!(c05_mov_rl8, "C05.mov.rl8", 8, dst_reg8, opnd_lab, yes,
    |vm: &mut VM, ctx: &mut Context, d: &Op, s: &Op| p_mov__T_mov__byte_reg__COMMA__byte_label(CUR, vm, ctx, "", (0, "mov", 0), (0, d.b, 0), C, (0, s.m, 0)));
movop!(c05_mov_rl16, "C05.mov.rl16", 16, dst_reg16, opnd_lab, yes,
    |vm: &mut VM, ctx: &mut Context, d: &Op, s: &Op| p_mov__T_mov__word_reg__COMMA__word_label(CUR, vm, ctx, "", (0, "mov", 0), (0, d.w, 0), C, (0, s.m, 0)));
movop!(c05_mov_mr8, "C05.mov.mr8", 8, opnd_mem, src_reg8, yes,
    |vm: &mut VM, ctx: &mut Context, d: &Op, s: &Op| p_mov__T_mov__T_byte__memory_addr__COMMA__byte_reg(CUR, vm, ctx, "", (0, "mov", 0), KB, (0, d.m, 0), C, (0, s.b, 0)));
movop!(c05_mov_mr16, "C05.mov.mr16", 16, opnd_mem, src_reg16, yes,
    |vm: &mut VM, ctx: &mut Context, d: &Op, s: &Op| p_mov__T_mov__T_word__memory_addr__COMMA__word_reg(CUR, vm, ctx, "", (0, "mov", 0), KW, (0, d.m, 0), C, (0, s.w, 0)));
movop!(c05_mov_lr8, "C05.mov.lr8", 8, opnd_lab, src_reg8, yes,
    |vm: &mut VM, ctx: &mut Context, d: &Op, s: &Op| p_mov__T_mov__byte_label__COMMA__byte_reg(CUR, vm, ctx, "", (0, "mov", 0), (0, d.m, 0), C, (0, s.b, 0)));
movop!(c05_mov_lr16, "C05.mov.lr16", 16, opnd_lab, src_reg16, yes,
    |vm: &mut VM, ctx: &mut Context, d: &Op, s: &Op| p_mov__T_mov__word_label__COMMA__word_reg(CUR, vm, ctx, "", (0, "mov", 0), (0, d.m, 0), C, (0, s.w, 0)));
movop!(c05_mov_ri8, "C05.mov.ri8", 8, dst_reg8, src_imm_s8, no,
    |vm: &mut VM, ctx: &mut Context, d: &Op, s: &Op| p_mov__T_mov__byte_reg__COMMA__s_byte_num(CUR, vm, ctx, "", (0, "mov", 0), (0, d.b, 0), C, (0, s.imm as u8 as i8, 0)));
movop!(c05_mov_ri16, "C05.mov.ri16", 16, dst_reg16, src_imm_s16, no,
    |vm: &mut VM, ctx: &mut Context, d: &Op, s: &Op| p_mov__T_mov__word_reg__COMMA__s_word_num(CUR, vm, ctx, "", (0, "mov", 0), (0, d.w, 0), C, (0, s.imm as i16, 0)));
movop!(c05_mov_mi8, "C05.mov.mi8", 8, opnd_mem, src_imm_s8, yes,
    |vm: &mut VM, ctx: &mut Context, d: &Op, s: &Op| p_mov__T_mov__T_byte__memory_addr__COMMA__s_byte_num(CUR, vm, ctx, "", (0, "mov", 0), KB, (0, d.m, 0), C, (0, s.imm as u8 as i8, 0)));
movop!(c05_mov_mi16, "C05.mov.mi16", 16, opnd_mem, src_imm_s16, yes,
    |vm: &mut VM, ctx: &mut Context, d: &Op, s: &Op| p_mov__T_mov__T_word__memory_addr__COMMA__s_word_num(CUR, vm, ctx, "", (0, "mov", 0), KW, (0, d.m, 0), C, (0, s.imm as i16, 0)));
movop!(c05_mov_li8, "C05.mov.li8", 8, opnd_lab, src_imm_s8, yes,
    |vm: &mut VM, ctx: &mut Context, d: &Op, s: &Op| p_mov__T_mov__byte_label__COMMA__s_byte_num(CUR, vm, ctx, "", (0, "mov", 0), (0, d.m, 0), C, (0, s.imm as u8 as i8, 0)));
movop!(c05_mov_li16, "C05.mov.li16", 16, opnd_lab, src_imm_s16, yes,
    |vm: &mut VM, ctx: &mut Context, d: &Op, s: &Op| p_mov__T_mov__word_label__COMMA__s_word_num(CUR, vm, ctx, "", (0, "mov", 0), (0, d.m, 0), C, (0, s.imm as i16, 0)));
movop!(c05_mov_sr, "C05.mov.sr", 16, dst_seg, src_reg16, no,
    |vm: &mut VM, ctx: &mut Context, d: &Op, s: &Op| p_mov__T_mov__seg_reg__COMMA__word_reg(CUR, vm, ctx, "", (0, "mov", 0), (0, d.w, 0), C, (0, s.w, 0)));
movop!(c05_mov_rs, "C05.mov.rs", 16, dst_reg16, src_seg, no,
    |vm: &mut VM, ctx: &mut Context, d: &Op, s: &Op| p_mov__T_mov__word_reg__COMMA__seg_reg(CUR, vm, ctx, "", (0, "mov", 0), (0, d.w, 0), C, (0, s.w, 0)));
movop!(c05_mov_ms, "C05.mov.ms", 16, opnd_mem, src_seg, yes,
    |vm: &mut VM, ctx: &mut Context, d: &Op, s: &Op| p_mov__T_mov__T_word__memory_addr__COMMA__seg_reg(CUR, vm, ctx, "", (0, "mov", 0), KW, (0, d.m, 0), C, (0, s.w, 0)));
movop!(c05_mov_ls, "C05.mov.ls", 16, opnd_lab, src_seg, yes,
    |vm: &mut VM, ctx: &mut Context, d: &Op, s: &Op| p_mov__T_mov__word_label__COMMA__seg_reg(CUR, vm, ctx, "", (0, "mov", 0), (0, d.m, 0), C, (0, s.w, 0)));
movop!(c05_mov_sm, "C05.mov.sm", 16, dst_seg, opnd_mem, yes,
    |vm: &mut VM, ctx: &mut Context, d: &Op, s: &Op| p_mov__T_mov__seg_reg__COMMA__T_word__memory_addr(CUR, vm, ctx, "", (0, "mov", 0), (0, d.w, 0), C, KW, (0, s.m, 0)));
movop!(c05_mov_sl, "C05.mov.sl", 16, dst_seg, opnd_lab, yes,
    |vm: &mut VM, ctx: &mut Context, d: &Op, s: &Op| p_mov__T_mov__seg_reg__COMMA__word_label(CUR, vm, ctx, "", (0, "mov", 0), (0, d.w, 0), C, (0, s.m, 0)));
xchgop!(c05_xchg_rr8, "C05.xchg.rr8", 8, dst_reg8, src_reg8, no,
    |vm: &mut VM, ctx: &mut Context, d: &Op, s: &Op| p_xchg__T_xchg__byte_reg__COMMA__byte_reg(CUR, vm, ctx, "", (0, "xchg", 0), (0, d.b, 0), C, (0, s.b, 0)));
xchgop!(c05_xchg_rr16, "C05.xchg.rr16", 16, dst_reg16, src_reg16, no,
    |vm: &mut VM, ctx: &mut Context, d: &Op, s: &Op| p_xchg__T_xchg__word_reg__COMMA__word_reg(CUR, vm, ctx, "", (0, "xchg", 0), (0, d.w, 0), C, (0, s.w, 0)));
xchgop!(c05_xchg_mr8, "C05.xchg.mr8", 8, opnd_mem, src_reg8, yes,
    |vm: &mut VM, ctx: &mut Context, d: &Op, s: &Op| p_xchg__T_xchg__T_byte__memory_addr__COMMA__byte_reg(CUR, vm, ctx, "", (0, "xchg", 0), KB, (0, d.m, 0), C, (0, s.b, 0)));
xchgop!(c05_xchg_mr16, "C05.xchg.mr16", 16, opnd_mem, src_reg16, yes,
    |vm: &mut VM, ctx: &mut Context, d: &Op, s: &Op| p_xchg__T_xchg__T_word__memory_addr__COMMA__word_reg(CUR, vm, ctx, "", (0, "xchg", 0), KW, (0, d.m, 0), C, (0, s.w, 0)));
xchgop!(c05_xchg_lr8, "C05.xchg.lr8", 8, opnd_lab, src_reg8, yes,
    |vm: &mut VM, ctx: &mut Context, d: &Op, s: &Op| p_xchg__T_xchg__byte_label__COMMA__byte_reg(CUR, vm, ctx, "", (0, "xchg", 0), (0, d.m, 0), C, (0, s.b, 0)));
xchgop!(c05_xchg_lr16, "C05.xchg.lr16", 16, opnd_lab, src_reg16, yes,
    |vm: &mut VM, ctx: &mut Context, d: &Op, s: &Op| p_xchg__T_xchg__word_label__COMMA__word_reg(CUR, vm, ctx, "", (0, "xchg", 0), (0, d.m, 0), C, (0, s.w, 0)));

// ---------------------------------------------------------------- stack
fn stack_cells(ss: u16, sp: u16) -> (usize, usize) {
    let a0 = phys(ss, sp);
    (a0, nxt(a0))
}

/// PUSH <pop_reg | cs | word mem | word label>: SP := SP-2 (mod 2^16), word stored low-then-high at SS:SP
#[cfg_attr(kani, kani::proof)]
pub fn c05_push() {
    let mut vm = mk_vm();
    let mut ctx = mk_ctx();
    vsym!(w_form: u8);
    vsym!(w_reg: u8);
    vsym!(w_src_m: usize);
    vsym!(w_p: usize);
    vassume!(w_form < 4 && w_reg < NT_pop_reg_N && w_src_m < MBU && w_p < MBU);
    vcell!(vm, w_p, w_pv);
    vcell!(vm, w_src_m, w_s0);
    vcell!(vm, nxt(w_src_m), w_s1);
    let pre = regs(&vm);
    let nsp = pre.sp.wrapping_sub(2);
    let (a0, a1) = stack_cells(pre.ss, nsp);
    // a memory source that overlaps the two stack cells being written is outside the claim
    vassume!(w_form < 2 || (w_src_m != a0 && w_src_m != a1 && nxt(w_src_m) != a0 && nxt(w_src_m) != a1));
    #[cfg(not(kani))]
    let snap = snapshot(&vm);
    let rid = NT_pop_reg_ID[w_reg as usize];
    let val: u16 = match w_form {
        0 => {
            let r = nt_pop_reg(w_reg, CUR, &mut vm, &mut ctx);
            p_push__T_push__pop_reg(CUR, &mut vm, &mut ctx, "", (0, "push", 0), (0, r, 0));
            r16(&pre, rid)
        }
        1 => {
            p_push__T_push__T_cs(CUR, &mut vm, &mut ctx, "", (0, "push", 0), (0, "cs", 0));
            pre.cs
        }
        2 => {
            p_push__T_push__T_word__memory_addr(CUR, &mut vm, &mut ctx, "", (0, "push", 0), KW, (0, w_src_m, 0));
            w_s0 as u16 | (w_s1 as u16) << 8
        }
        _ => {
            p_push__T_push__word_label(CUR, &mut vm, &mut ctx, "", (0, "push", 0), (0, w_src_m, 0));
            w_s0 as u16 | (w_s1 as u16) << 8
        }
    };
    let mut er = pre;
    er.sp = nsp;
    vassert!("C05.push.sp_and_frame", regs(&vm) == er);
    // PUSH SP: the 8086 stores the already decremented value; the undecremented one is accepted too
    let is_sp = w_form == 0 && rid == ID_sp;
    let got = vm.mem[a0] as u16 | (vm.mem[a1] as u16) << 8;
    vassert!("C05.push.stored_word", got == val || (is_sp && got == nsp));
    vassert!("C05.push.memory_frame", w_p == a0 || w_p == a1 || vm.mem[w_p] == w_pv);
    vcover!("C05.push.cover.sp_wraps", pre.sp < 2);
    vcover!("C05.push.cover.stack_at_top_of_memory", a0 == MBU - 1);
    #[cfg(not(kani))]
    {
        let mut c2 = ctx_for_label(pre.ds, w_src_m);
        let text = match w_form {
            0 => Some(format!("push {}", NT_pop_reg_TEXT[w_reg as usize])),
            1 => Some("push cs".to_string()),
            3 => Some("push word v".to_string()),
            _ => None,
        };
        if let Some(t) = text {
            glue("c05_push", &snap, &vm, &mut c2, &t, Some("NEXT".to_string()));
        }
    }
    done_ctx(ctx);
    done(vm);
}

/// POP <pop_reg | word mem | word label>: operand := word at SS:SP, SP := SP+2 (mod 2^16)
#[cfg_attr(kani, kani::proof)]
pub fn c05_pop() {
    let mut vm = mk_vm();
    let mut ctx = mk_ctx();
    vsym!(w_form: u8);
    vsym!(w_reg: u8);
    vsym!(w_dst_m: usize);
    vsym!(w_p: usize);
    vassume!(w_form < 3 && w_reg < NT_pop_reg_N && w_dst_m < MBU && w_p < MBU);
    vcell!(vm, w_p, w_pv);
    let pre = regs(&vm);
    let (a0, a1) = stack_cells(pre.ss, pre.sp);
    vcell!(vm, a0, w_t0);
    vcell!(vm, a1, w_t1);
    let val = w_t0 as u16 | (w_t1 as u16) << 8;
    // a memory destination that overlaps the two stack cells being read is outside the claim
    vassume!(w_form == 0 || (w_dst_m != a0 && w_dst_m != a1 && nxt(w_dst_m) != a0 && nxt(w_dst_m) != a1));
    #[cfg(not(kani))]
    let snap = snapshot(&vm);
    let rid = NT_pop_reg_ID[w_reg as usize];
    match w_form {
        0 => {
            let r = nt_pop_reg(w_reg, CUR, &mut vm, &mut ctx);
            p_pop__T_pop__pop_reg(CUR, &mut vm, &mut ctx, "", (0, "pop", 0), (0, r, 0));
        }
        1 => p_pop__T_pop__T_word__memory_addr(CUR, &mut vm, &mut ctx, "", (0, "pop", 0), KW, (0, w_dst_m, 0)),
        _ => p_pop__T_pop__word_label(CUR, &mut vm, &mut ctx, "", (0, "pop", 0), (0, w_dst_m, 0)),
    }
    let mut er = pre;
    er.sp = pre.sp.wrapping_add(2);
    if w_form == 0 {
        if rid == ID_sp {
            // POP SP: the popped value is the new SP (8086); value+2 is what an increment after the
            // load gives.  Both are accepted, the statement only fixes POP for other operands.
            let got = regs(&vm);
            er.sp = got.sp;
            vassert!("C05.pop.pop_sp", got.sp == val || got.sp == val.wrapping_add(2));
        } else {
            set_r16(&mut er, rid, val);
        }
        vassert!("C05.pop.register_sp_and_frame", regs(&vm) == er);
        vassert!("C05.pop.memory_frame", vm.mem[w_p] == w_pv);
    } else {
        vassert!("C05.pop.sp_and_frame", regs(&vm) == er);
        let exp = if w_p == w_dst_m { w_t0 } else if w_p == nxt(w_dst_m) { w_t1 } else { w_pv };
        vassert!("C05.pop.memory", vm.mem[w_p] == exp);
    }
    vcover!("C05.pop.cover.sp_wraps", pre.sp >= 0xFFFE);
    vcover!("C05.pop.cover.probe_is_destination_high_byte", w_form == 1 && w_p == nxt(w_dst_m));
    #[cfg(not(kani))]
    {
        let mut c2 = ctx_for_label(pre.ds, w_dst_m);
        let text = match w_form {
            0 => Some(format!("pop {}", NT_pop_reg_TEXT[w_reg as usize])),
            2 => Some("pop word v".to_string()),
            _ => None,
        };
        if let Some(t) = text {
            glue("c05_pop", &snap, &vm, &mut c2, &t, Some("NEXT".to_string()));
        }
    }
    done_ctx(ctx);
    done(vm);
}

/// PUSH x ; POP y  ==>  y = x and SP restored (registers and segment registers, x,y != SP)
#[cfg_attr(kani, kani::proof)]
pub fn c05_push_pop_pair() {
    let mut vm = mk_vm();
    let mut ctx = mk_ctx();
    vsym!(w_x: u8);
    vsym!(w_y: u8);
    vassume!(w_x < NT_pop_reg_N && w_y < NT_pop_reg_N);
    let (xid, yid) = (NT_pop_reg_ID[w_x as usize], NT_pop_reg_ID[w_y as usize]);
    vassume!(xid != ID_sp && yid != ID_sp);
    // popping into SS moves the stack itself before the check; excluded for y
    let pre = regs(&vm);
    let rx = nt_pop_reg(w_x, CUR, &mut vm, &mut ctx);
    p_push__T_push__pop_reg(CUR, &mut vm, &mut ctx, "", (0, "push", 0), (0, rx, 0));
    let ry = nt_pop_reg(w_y, CUR, &mut vm, &mut ctx);
    p_pop__T_pop__pop_reg(CUR, &mut vm, &mut ctx, "", (0, "pop", 0), (0, ry, 0));
    let mut er = pre;
    set_r16(&mut er, yid, r16(&pre, xid));
    vassert!("C05.push_pop.y_eq_x_sp_restored", regs(&vm) == er);
    done_ctx(ctx);
    done(vm);
}

/// two pushes then two pops come back in LIFO order from any SS:SP
#[cfg_attr(kani, kani::proof)]
pub fn c05_stack_lifo() {
    let mut vm = mk_vm();
    let mut ctx = mk_ctx();
    let pre = regs(&vm);
    // push ax ; push bx ; pop cx ; pop dx  ==> cx = bx, dx = ax, SP restored
    let sel = |id: u8| -> u8 {
        let mut i = 0u8;
        let mut r = 0u8;
        while i < NT_pop_reg_N {
            if NT_pop_reg_ID[i as usize] == id {
                r = i;
            }
            i += 1;
        }
        r
    };
    for (push, id) in [(true, ID_ax), (true, ID_bx), (false, ID_cx), (false, ID_dx)] {
        let r = nt_pop_reg(sel(id), CUR, &mut vm, &mut ctx);
        if push {
            p_push__T_push__pop_reg(CUR, &mut vm, &mut ctx, "", (0, "push", 0), (0, r, 0));
        } else {
            p_pop__T_pop__pop_reg(CUR, &mut vm, &mut ctx, "", (0, "pop", 0), (0, r, 0));
        }
    }
    let mut er = pre;
    er.cx = pre.bx;
    er.dx = pre.ax;
    vassert!("C05.stack.lifo", regs(&vm) == er);
    vcover!("C05.stack.cover.sp_crosses_zero", pre.sp == 2);
    done_ctx(ctx);
    done(vm);
}

/// arbitrary interleaving of K pushes / pops of symbolically chosen registers against a reference
/// stack (thorough tier): registers come back in LIFO order, SP ends at SP0 - 2*(pushes - pops)
fn stack_history(k: usize) {
    let mut vm = mk_vm();
    let mut ctx = mk_ctx();
    let pre = regs(&vm);
    vsym!(w_kinds: u8);   // bit i: 1 = push, 0 = pop
    vsym!(w_regs: u32);   // 4 bits per step: operand register
    let mut model = pre;
    let mut stack = [0u16; 6];
    let mut depth = 0usize;
    let mut i = 0;
    while i < k {
        let sel = ((w_regs >> (4 * i)) & 15) as u8 % NT_pop_reg_N;
        let id = NT_pop_reg_ID[sel as usize];
        // SP and SS as operands move the stack itself: outside this history check
        vassume!(id != ID_sp && id != ID_ss);
        let push = (w_kinds >> i) & 1 == 1;
        let r = nt_pop_reg(sel, CUR, &mut vm, &mut ctx);
        if push {
            p_push__T_push__pop_reg(CUR, &mut vm, &mut ctx, "", (0, "push", 0), (0, r, 0));
            stack[depth] = r16(&model, id);
            depth += 1;
            model.sp = model.sp.wrapping_sub(2);
        } else {
            vassume!(depth > 0);
            p_pop__T_pop__pop_reg(CUR, &mut vm, &mut ctx, "", (0, "pop", 0), (0, r, 0));
            depth -= 1;
            set_r16(&mut model, id, stack[depth]);
            model.sp = model.sp.wrapping_add(2);
        }
        i += 1;
    }
    vassert!("C05.history.registers_and_sp_match_reference_stack", regs(&vm) == model);
    vcover!("C05.history.cover.push_push_pop_pop", k >= 4 && w_kinds & 15 == 0b0011);
    vcover!("C05.history.cover.sp_crosses_zero", pre.sp == 2 && depth == 0 && k >= 4);
    done_ctx(ctx);
    done(vm);
}

#[cfg_attr(kani, kani::proof)]
#[cfg_attr(kani, kani::unwind(8))]
pub fn c05_stack_history4() {
    stack_history(4);
}

#[cfg_attr(kani, kani::proof)]
#[cfg_attr(kani, kani::unwind(8))]
pub fn c05_stack_history5__t() {
    stack_history(5);
}

/// PUSHF / POPF / LAHF / SAHF / XLAT
#[cfg_attr(kani, kani::proof)]
pub fn c05_singletons() {
    let mut vm = mk_vm();
    let mut ctx = mk_ctx();
    vsym!(w_which: u8);
    vsym!(w_p: usize);
    vassume!(w_which < 5 && w_p < MBU);
    vcell!(vm, w_p, w_pv);
    let pre = regs(&vm);
    let mut er = pre;
    #[cfg(not(kani))]
    let snap = snapshot(&vm);
    let mut exp_mem = w_pv;
    match w_which {
        0 => {
            p_singleton_data_transfer__T_lahf(CUR, &mut vm, &mut ctx, "", (0, "lahf", 0));
            er.ax = (pre.ax & 0x00FF) | ((pre.flag & 0xFF) << 8);
        }
        1 => {
            p_singleton_data_transfer__T_sahf(CUR, &mut vm, &mut ctx, "", (0, "sahf", 0));
            er.flag = (pre.flag & 0xFF00) | (pre.ax >> 8);
        }
        2 => {
            p_singleton_data_transfer__T_pushf(CUR, &mut vm, &mut ctx, "", (0, "pushf", 0));
            er.sp = pre.sp.wrapping_sub(2);
            let (a0, a1) = stack_cells(pre.ss, er.sp);
            if w_p == a1 {
                exp_mem = (pre.flag >> 8) as u8;
            } else if w_p == a0 {
                exp_mem = pre.flag as u8;
            }
        }
        3 => {
            let (a0, a1) = stack_cells(pre.ss, pre.sp);
            let v = vm.mem[a0] as u16 | (vm.mem[a1] as u16) << 8;
            p_singleton_data_transfer__T_popf(CUR, &mut vm, &mut ctx, "", (0, "popf", 0));
            er.flag = v;
            er.sp = pre.sp.wrapping_add(2);
        }
        _ => {
            let a = phys(pre.ds, pre.bx.wrapping_add(pre.ax & 0xFF));
            let v = vm.mem[a];
            p_singleton_data_transfer__T_xlat(CUR, &mut vm, &mut ctx, "", (0, "xlat", 0));
            er.ax = (pre.ax & 0xFF00) | v as u16;
        }
    }
    vassert!("C05.singleton.registers_and_flags", regs(&vm) == er);
    vassert!("C05.singleton.memory", vm.mem[w_p] == exp_mem);
    vcover!("C05.singleton.cover.xlat_offset_wraps", w_which == 4 && (pre.bx as u32 + (pre.ax & 0xFF) as u32) > 0xFFFF);
    vcover!("C05.singleton.cover.pushf_high_byte", w_which == 2 && w_p == nxt(phys(pre.ss, pre.sp.wrapping_sub(2))));
    #[cfg(not(kani))]
    glue("c05_singletons", &snap, &vm, &mut ctx, ["lahf", "sahf", "pushf", "popf", "xlat"][w_which as usize], Some("NEXT".to_string()));
    done_ctx(ctx);
    done(vm);
}

#[cfg_attr(kani, kani::proof)]
pub fn c05_twin_reach() {
    let mut vm = mk_vm();
    let mut ctx = mk_ctx();
    let pre = regs(&vm);
    p_singleton_data_transfer__T_pushf(CUR, &mut vm, &mut ctx, "", (0, "pushf", 0));
    vassert!("C05.twin.must_fail", regs(&vm).sp == pre.sp);
    done_ctx(ctx);
    done(vm);
}

pub const TABLE: &[(&str, fn())] = &[
    ("c05_mov_rr8", c05_mov_rr8),
    ("c05_mov_rr16", c05_mov_rr16),
    ("c05_mov_rm8", c05_mov_rm8),
    ("c05_mov_rm16", c05_mov_rm16),
    ("c05_mov_rl8", c05_mov_rl8),
    ("c05_mov_rl16", c05_mov_rl16),
    ("c05_mov_mr8", c05_mov_mr8),
    ("c05_mov_mr16", c05_mov_mr16),
    ("c05_mov_lr8", c05_mov_lr8),
    ("c05_mov_lr16", c05_mov_lr16),
    ("c05_mov_ri8", c05_mov_ri8),
    ("c05_mov_ri16", c05_mov_ri16),
    ("c05_mov_mi8", c05_mov_mi8),
    ("c05_mov_mi16", c05_mov_mi16),
    ("c05_mov_li8", c05_mov_li8),
    ("c05_mov_li16", c05_mov_li16),
    ("c05_mov_sr", c05_mov_sr),
    ("c05_mov_rs", c05_mov_rs),
    ("c05_mov_ms", c05_mov_ms),
    ("c05_mov_ls", c05_mov_ls),
    ("c05_mov_sm", c05_mov_sm),
    ("c05_mov_sl", c05_mov_sl),
    ("c05_xchg_rr8", c05_xchg_rr8),
    ("c05_xchg_rr16", c05_xchg_rr16),
    ("c05_xchg_mr8", c05_xchg_mr8),
    ("c05_xchg_mr16", c05_xchg_mr16),
    ("c05_xchg_lr8", c05_xchg_lr8),
    ("c05_xchg_lr16", c05_xchg_lr16),
    ("c05_push", c05_push),
    ("c05_pop", c05_pop),
    ("c05_push_pop_pair", c05_push_pop_pair),
    ("c05_stack_lifo", c05_stack_lifo),
    ("c05_stack_history4", c05_stack_history4),
    ("c05_stack_history5__t", c05_stack_history5__t),
    ("c05_singletons", c05_singletons),
    ("c05_twin_reach", c05_twin_reach),
];
