// C07 (A-harnesses): the ten string kernels, for arbitrary DS/ES/SI/DI/DF, registers and memory.
use crate::instructions::string::*;
use crate::verif_rt::*;
use crate::{vassert, vassert_kf, vassume, vcell, vcover, vsym};

fn step(v: u16, df: bool, n: u16) -> u16 {
    if df { v.wrapping_sub(n) } else { v.wrapping_add(n) }
}

macro_rules! string_harness {
    ($h:ident, $name:expr, $f:ident, $word:expr, $kind:expr) => {
        // $kind: 0 movs, 1 lods, 2 stos, 3 cmps, 4 scas
        #[cfg_attr(kani, kani::proof)]
        pub fn $h() {
            let mut vm = mk_vm();
            vsym!(w_p: usize);
            vassume!(w_p < MBU);
            vcell!(vm, w_p, w_pv);
            let pre = regs(&vm);
            let n: u16 = if $word { 2 } else { 1 };
            // a word element whose offset is 0xFFFF (second byte: physical successor vs. wrap inside
            // the segment) is outside the claim; totality for it is C09
            vassume!(!$word || (pre.si != 0xFFFF && pre.di != 0xFFFF));
            let s0 = phys(pre.ds, pre.si);
            let d0 = phys(pre.es, pre.di);
            vcell!(vm, s0, w_s0);
            vcell!(vm, nxt(s0), w_s1);
            vcell!(vm, d0, w_d0);
            vcell!(vm, nxt(d0), w_d1);
            let df = pre.flag & 0x400 != 0;
            $f(&mut vm);
            let post = regs(&vm);
            let mut er = pre;
            let mut e_mem = w_pv;
            let src: u16 = if $word { w_s0 as u16 | (w_s1 as u16) << 8 } else { w_s0 as u16 };
            let dst: u16 = if $word { w_d0 as u16 | (w_d1 as u16) << 8 } else { w_d0 as u16 };
            let acc: u16 = if $word { pre.ax } else { pre.ax & 0xFF };
            match $kind {
                0 => {
                    er.si = step(pre.si, df, n);
                    er.di = step(pre.di, df, n);
                    if w_p == d0 { e_mem = w_s0; }
                    if $word && w_p == nxt(d0) { e_mem = w_s1; }
                }
                1 => {
                    er.si = step(pre.si, df, n);
                    er.ax = if $word { src } else { (pre.ax & 0xFF00) | src };
                }
                2 => {
                    er.di = step(pre.di, df, n);
                    if w_p == d0 { e_mem = pre.ax as u8; }
                    if $word && w_p == nxt(d0) { e_mem = (pre.ax >> 8) as u8; }
                }
                3 => {
                    er.si = step(pre.si, df, n);
                    er.di = step(pre.di, df, n);
                    let f = if $word { ref_sub16(src, dst, false).1 } else { ref_sub8(src as u8, dst as u8, false).1 };
                    er.flag = flags_with(pre.flag, f);
                }
                _ => {
                    er.di = step(pre.di, df, n);
                    let f = if $word { ref_sub16(acc, dst, false).1 } else { ref_sub8(acc as u8, dst as u8, false).1 };
                    er.flag = flags_with(pre.flag, f);
                }
            }
            vassert!(concat!("C07.", $name, ".registers_and_flags"), post == er);
            vassert!(concat!("C07.", $name, ".memory"), vm.mem[w_p] == e_mem);
            vcover!(concat!("C07.", $name, ".cover.ds_ne_es_same_offset"), pre.ds != pre.es && pre.si == pre.di);
            vcover!(concat!("C07.", $name, ".cover.index_wraps"), (df && pre.di < n) || (!df && pre.si >= 0xFFFE));
            vcover!(concat!("C07.", $name, ".cover.probe_is_destination"), w_p == d0 || w_p == nxt(d0));
            done(vm);
        }
    };
}

pub fn flags_with(flag: u16, f: Fl) -> u16 {
    let mut v = flag & !STATUS;
    if f.cf { v |= 0x001; }
    if f.pf { v |= 0x004; }
    if f.af { v |= 0x010; }
    if f.zf { v |= 0x040; }
    if f.sf { v |= 0x080; }
    if f.of { v |= 0x800; }
    v
}

string_harness!(c07_movs_byte, "movs_byte", movs_byte, false, 0);
string_harness!(c07_movs_word, "movs_word", movs_word, true, 0);
string_harness!(c07_lods_byte, "lods_byte", loads_byte, false, 1);
string_harness!(c07_lods_word, "lods_word", loads_word, true, 1);
string_harness!(c07_stos_byte, "stos_byte", stos_byte, false, 2);
string_harness!(c07_stos_word, "stos_word", stos_word, true, 2);
string_harness!(c07_cmps_byte, "cmps_byte", cmps_byte, false, 3);
string_harness!(c07_cmps_word, "cmps_word", cmps_word, true, 3);
string_harness!(c07_scas_byte, "scas_byte", scas_byte, false, 4);
string_harness!(c07_scas_word, "scas_word", scas_word, true, 4);

#[cfg_attr(kani, kani::proof)]
pub fn c07_twin_reach() {
    let mut vm = mk_vm();
    let pre = regs(&vm);
    movs_byte(&mut vm);
    vassert!("C07.twin.must_fail", regs(&vm).si == pre.si);
    done(vm);
}

pub const TABLE: &[(&str, fn())] = &[
    ("c07_movs_byte", c07_movs_byte),
    ("c07_movs_word", c07_movs_word),
    ("c07_lods_byte", c07_lods_byte),
    ("c07_lods_word", c07_lods_word),
    ("c07_stos_byte", c07_stos_byte),
    ("c07_stos_word", c07_stos_word),
    ("c07_cmps_byte", c07_cmps_byte),
    ("c07_cmps_word", c07_cmps_word),
    ("c07_scas_byte", c07_scas_byte),
    ("c07_scas_word", c07_scas_word),
    ("c07_twin_reach", c07_twin_reach),
];
