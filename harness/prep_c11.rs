// C11 (constants): the assembler's numeric leaves on symbolic token text.  A constant written in
// decimal, 0x hexadecimal or 0b binary (either case of the prefix) yields its mathematical value when
// it fits the operand type and a diagnostic otherwise.  The token text has a concrete length per
// instance (std's str slicing / char iteration over a symbolic length does not finish) and symbolic
// digits.
use crate::{vassert, vassume, vcover, vsym};
use crate::util::preprocessor_util::{Context as PCtx, Output as POut};

fn digit_val(c: u8) -> u32 {
    match c {
        b'0'..=b'9' => (c - b'0') as u32,
        b'a'..=b'f' => (c - b'a') as u32 + 10,
        _ => (c - b'A') as u32 + 10,
    }
}

/// text = prefix (0, 2 or 1 chars) + `n` symbolic digits of the radix; returns (buffer, mathematical value)
fn sym_token(kind: u8, n: usize) -> ([u8; 20], usize, u64) {
    vsym!(w_d0: u8); vsym!(w_d1: u8); vsym!(w_d2: u8); vsym!(w_d3: u8); vsym!(w_d4: u8); vsym!(w_d5: u8);
    vsym!(w_d6: u8); vsym!(w_d7: u8); vsym!(w_d8: u8); vsym!(w_d9: u8); vsym!(w_d10: u8); vsym!(w_d11: u8);
    vsym!(w_d12: u8); vsym!(w_d13: u8); vsym!(w_d14: u8); vsym!(w_d15: u8); vsym!(w_d16: u8);
    vsym!(w_upper: bool);
    let raw = [w_d0, w_d1, w_d2, w_d3, w_d4, w_d5, w_d6, w_d7, w_d8, w_d9, w_d10, w_d11, w_d12, w_d13, w_d14, w_d15, w_d16];
    let mut buf = [b'0'; 20];
    let mut len = 0usize;
    let radix: u64 = match kind { 1 => 16, 2 => 2, _ => 10 };
    if kind == 1 || kind == 2 {
        buf[0] = b'0';
        buf[1] = if kind == 1 { if w_upper { b'X' } else { b'x' } } else if w_upper { b'B' } else { b'b' };
        len = 2;
    } else if kind == 3 {
        buf[0] = b'-';
        len = 1;
    }
    let mut val: u64 = 0;
    let mut i = 0;
    while i < n {
        let c: u8 = match kind {
            1 => { let k = raw[i] % 22; if k < 10 { b'0' + k } else if k < 16 { b'a' + (k - 10) } else { b'A' + (k - 16) } }
            2 => b'0' + raw[i] % 2,
            _ => b'0' + raw[i] % 10,
        };
        buf[len] = c;
        len += 1;
        val = val * radix + digit_val(c) as u64;
        i += 1;
    }
    (buf, len, val)
}

macro_rules! leaf {
    ($h:ident, $name:expr, $kind:expr, $n:expr, $max:expr, $t:ty, $call:expr) => {
        #[cfg_attr(kani, kani::proof)]
        #[cfg_attr(kani, kani::unwind(22))]
        #[cfg_attr(kani, kani::stub(alloc::fmt::format, crate::verif_rt::fmt_stub))]
        #[cfg_attr(kani, kani::stub(core::str::slice_error_fail, crate::verif_rt::slice_fail_stub))]
        pub fn $h() {
            let mut ctx = PCtx::default();
            let mut out = POut::default();
            let (buf, len, val) = sym_token($kind, $n);
            let text: &str = unsafe { std::str::from_utf8_unchecked(&buf[..len]) };
            let r = ($call)(&mut ctx, &mut out, text);
            let fits = val <= $max as u64;
            match &r {
                Ok(v) => {
                    vassert!(concat!("C11.constant.", $name, ".value"), fits && (*v as u64) == val);
                }
                Err(_) => {
                    vassert!(concat!("C11.constant.", $name, ".rejected_only_when_out_of_range"), !fits);
                }
            }
            vcover!(concat!("C11.constant.", $name, ".cover.max"), val == $max as u64);
            std::mem::forget(r);
            std::mem::forget(ctx);
            std::mem::forget(out);
        }
    };
}

macro_rules! negleaf {
    ($h:ident, $name:expr, $n:expr, $min:expr, $call:expr) => {
        #[cfg_attr(kani, kani::proof)]
        #[cfg_attr(kani, kani::unwind(22))]
        #[cfg_attr(kani, kani::stub(alloc::fmt::format, crate::verif_rt::fmt_stub))]
        #[cfg_attr(kani, kani::stub(core::str::slice_error_fail, crate::verif_rt::slice_fail_stub))]
        pub fn $h() {
            let mut ctx = PCtx::default();
            let mut out = POut::default();
            let (buf, len, mag) = sym_token(3, $n);
            let text: &str = unsafe { std::str::from_utf8_unchecked(&buf[..len]) };
            let r = ($call)(&mut ctx, &mut out, text);
            let fits = mag <= $min as u64; // -mag >= MIN
            match &r {
                Ok(v) => {
                    vassert!(concat!("C11.constant.", $name, ".value"), fits && (*v as i64) == -(mag as i64));
                }
                Err(_) => {
                    vassert!(concat!("C11.constant.", $name, ".rejected_only_when_out_of_range"), !fits);
                }
            }
            vcover!(concat!("C11.constant.", $name, ".cover.min"), mag == $min as u64);
            std::mem::forget(r);
            std::mem::forget(ctx);
            std::mem::forget(out);
        }
    };
}

negleaf!(c11n_sbyte_neg3, "s_byte_num.negative", 3, 128u32, |c: &mut PCtx, o: &mut POut, t| p_s_byte_num__RE_NEG(c, o, "", (0, t, 0)));
negleaf!(c11n_sbyte_neg5, "s_byte_num.negative", 5, 128u32, |c: &mut PCtx, o: &mut POut, t| p_s_byte_num__RE_NEG(c, o, "", (0, t, 0)));
negleaf!(c11n_sword_neg5, "s_word_num.negative", 5, 32768u32, |c: &mut PCtx, o: &mut POut, t| p_s_word_num__RE_NEG(c, o, "", (0, t, 0)));
negleaf!(c11n_sword_neg11, "s_word_num.negative", 11, 32768u32, |c: &mut PCtx, o: &mut POut, t| p_s_word_num__RE_NEG(c, o, "", (0, t, 0)));
negleaf!(c11n_sbyte_neg11, "s_byte_num.negative", 11, 128u32, |c: &mut PCtx, o: &mut POut, t| p_s_byte_num__RE_NEG(c, o, "", (0, t, 0)));
leaf!(c11n_word_dec11, "u_word_num.decimal", 0, 11, 65535u32, u16, |c: &mut PCtx, o: &mut POut, t| p_u_word_num__RE_NUM(c, o, "", (0, t, 0)));
leaf!(c11n_word_hex9, "u_word_num.hex", 1, 9, 65535u32, u16, |c: &mut PCtx, o: &mut POut, t| p_u_word_num__RE_HEX(c, o, "", (0, t, 0)));

leaf!(c11n_word_dec5, "u_word_num.decimal", 0, 5, 65535u32, u16, |c: &mut PCtx, o: &mut POut, t| p_u_word_num__RE_NUM(c, o, "", (0, t, 0)));
leaf!(c11n_word_hex4, "u_word_num.hex", 1, 4, 65535u32, u16, |c: &mut PCtx, o: &mut POut, t| p_u_word_num__RE_HEX(c, o, "", (0, t, 0)));
leaf!(c11n_word_hex5, "u_word_num.hex", 1, 5, 65535u32, u16, |c: &mut PCtx, o: &mut POut, t| p_u_word_num__RE_HEX(c, o, "", (0, t, 0)));
leaf!(c11n_word_bin16, "u_word_num.binary", 2, 16, 65535u32, u16, |c: &mut PCtx, o: &mut POut, t| p_u_word_num__RE_BIN(c, o, "", (0, t, 0)));
leaf!(c11n_word_bin17, "u_word_num.binary", 2, 17, 65535u32, u16, |c: &mut PCtx, o: &mut POut, t| p_u_word_num__RE_BIN(c, o, "", (0, t, 0)));
leaf!(c11n_byte_dec3, "u_byte_num.decimal", 0, 3, 255u32, u8, |c: &mut PCtx, o: &mut POut, t| p_u_byte_num__RE_NUM(c, o, "", (0, t, 0)));
leaf!(c11n_byte_hex2, "u_byte_num.hex", 1, 2, 255u32, u8, |c: &mut PCtx, o: &mut POut, t| p_u_byte_num__RE_HEX(c, o, "", (0, t, 0)));
leaf!(c11n_byte_hex3, "u_byte_num.hex", 1, 3, 255u32, u8, |c: &mut PCtx, o: &mut POut, t| p_u_byte_num__RE_HEX(c, o, "", (0, t, 0)));
leaf!(c11n_byte_bin8, "u_byte_num.binary", 2, 8, 255u32, u8, |c: &mut PCtx, o: &mut POut, t| p_u_byte_num__RE_BIN(c, o, "", (0, t, 0)));
leaf!(c11n_byte_bin9, "u_byte_num.binary", 2, 9, 255u32, u8, |c: &mut PCtx, o: &mut POut, t| p_u_byte_num__RE_BIN(c, o, "", (0, t, 0)));

pub const TABLE: &[(&str, fn())] = &[
    ("c11n_sbyte_neg3", c11n_sbyte_neg3), ("c11n_sbyte_neg5", c11n_sbyte_neg5), ("c11n_sword_neg5", c11n_sword_neg5),
    ("c11n_sword_neg11", c11n_sword_neg11), ("c11n_sbyte_neg11", c11n_sbyte_neg11), ("c11n_word_dec11", c11n_word_dec11), ("c11n_word_hex9", c11n_word_hex9),
    ("c11n_word_dec5", c11n_word_dec5), ("c11n_word_hex4", c11n_word_hex4), ("c11n_word_hex5", c11n_word_hex5),
    ("c11n_word_bin16", c11n_word_bin16), ("c11n_word_bin17", c11n_word_bin17),
    ("c11n_byte_dec3", c11n_byte_dec3), ("c11n_byte_hex2", c11n_byte_hex2), ("c11n_byte_hex3", c11n_byte_hex3),
    ("c11n_byte_bin8", c11n_byte_bin8), ("c11n_byte_bin9", c11n_byte_bin9),
];
