// C18: console interrupt services (driver/interrupts.rs, binary crate).  Output goes to the ghost
// log, input comes from the stdin stub (verif_io): the argument expressions are the real ones.
use emulator_8086_lib::{vassert, vassume, vcell, vcover, vsym};
use crate::driver::verif_io as io;

fn seq(a: &str, b: &str) -> bool {
    a.as_bytes() == b.as_bytes()
}

fn sym_line(max: usize) -> ([u8; io::LINE_MAX], usize, bool) {
    sym_line_fixed(max, None, None)
}

/// `fixed_len` / `fixed_nl` = Some(..): that length / terminator (content stays symbolic); the std String
/// code (push, trim_end_matches, bytes) over a symbolic LENGTH together with a symbolic memory index
/// does not finish on any back end (probe: > 400 s / out of memory), so the length is enumerated
fn sym_line_fixed(max: usize, fixed_len: Option<usize>, fixed_nl: Option<bool>) -> ([u8; io::LINE_MAX], usize, bool) {
    vsym!(w_l0: u8);
    vsym!(w_l1: u8);
    vsym!(w_l2: u8);
    vsym!(w_l3: u8);
    vsym!(w_l4: u8);
    vsym!(w_l5: u8);
    vsym!(w_l6: u8);
    vsym!(w_l7: u8);
    vsym!(w_len: usize);
    vsym!(w_nl: bool);
    let mut line = [w_l0, w_l1, w_l2, w_l3, w_l4, w_l5, w_l6, w_l7];
    let len = match fixed_len { Some(l) => l, None => w_len % (max + 1) };
    let w_nl = match fixed_nl { Some(b) => b, None => w_nl };
    // 7-bit ASCII without line terminators inside the line
    let mut i = 0;
    while i < io::LINE_MAX {
        line[i] &= 0x7F;
        if line[i] == b'\n' || line[i] == b'\r' {
            line[i] = b'x';
        }
        i += 1;
    }
    (line, len, w_nl)
}

/// INT 21h AH=2: writes the character in DL, returns it in AL; AH=1: AL = first byte of the next
/// input line (0 at end of input); nothing else changes
fn char_io(w_ah: u8, max: usize) {
    let mut vm = mk_vm();
    vsym!(w_p: usize);
    vassume!(w_p < MBU);
    let flen = max;
    vcell!(vm, w_p, w_pv);
    let (line, len, nl) = sym_line_fixed(max, Some(flen), None);
    io::stdin_set(line, len, nl);
    io::log_reset();
    let pre = regs(&vm);
    int_21(&mut vm, w_ah);
    let mut er = pre;
    if w_ah == 2 {
        er.ax = (pre.ax & 0xFF00) | (pre.dx & 0xFF);
        vassert!("C18.int21_02.writes_exactly_dl", io::log_len() == 1 && seq(io::log_fmt(0), "{}") && io::log_arg(0, 0) == (pre.dx & 0xFF) as u64);
    } else {
        let first: u16 = if len > 0 { line[0] as u16 } else if nl { b'\n' as u16 } else { 0 };
        er.ax = (pre.ax & 0xFF00) | first;
        vassert!("C18.int21_01.no_output", io::log_len() == 0);
    }
    vassert!("C18.int21_char.registers_and_flags", regs(&vm) == er);
    vassert!("C18.int21_char.memory_untouched", vm.mem[w_p] == w_pv);
    vcover!("C18.int21_01.cover.end_of_input", !(w_ah == 1 && flen == 0) || !nl);
    done(vm);
}

#[cfg_attr(kani, kani::proof)]
#[cfg_attr(kani, kani::unwind(12))]
pub fn c18_int21_putc() {
    char_io(2, 0);
}
#[cfg_attr(kani, kani::proof)]
#[cfg_attr(kani, kani::unwind(12))]
pub fn c18_int21_getc_len0() {
    char_io(1, 0);
}
#[cfg_attr(kani, kani::proof)]
#[cfg_attr(kani, kani::unwind(12))]
pub fn c18_int21_getc_len2() {
    char_io(1, 2);
}
#[cfg_attr(kani, kani::proof)]
#[cfg_attr(kani, kani::unwind(12))]
pub fn c18_int21_getc_len6__t() {
    char_io(1, 6);
}

/// INT 21h AH=0Ah: at most the declared capacity of the line is stored at DS:DX+2.., the stored
/// count at DS:DX+1; no cell outside [DS:DX+1, DS:DX+2+capacity) changes; addresses wrap; no abort
fn buffered_input(flen: usize, fnl: bool) {
    let mut vm = mk_vm();
    vsym!(w_p: usize);
    vassume!(w_p < MBU);
    vcell!(vm, w_p, w_pv);
    let pre = regs(&vm);
    let start = phys(pre.ds, pre.dx);
    vcell!(vm, start, w_cap);
    let (line, len, nl) = sym_line_fixed(flen, Some(flen), Some(fnl));
    io::stdin_set(line, len, nl);
    io::log_reset();
    int_21(&mut vm, 0x0A);
    let cap = w_cap as usize;
    let count = if len < cap { len } else { cap };
    let off = (w_p + MBU - start) % MBU; // position of the probe cell relative to the buffer
    let expect: u8 = if off == 1 {
        count as u8
    } else if off >= 2 && off < 2 + count {
        line[(off - 2) % io::LINE_MAX]
    } else {
        w_pv
    };
    vassert!("C18.int21_0a.count_and_data_and_frame", vm.mem[w_p] == expect);
    vassert!("C18.int21_0a.registers_and_flags", regs(&vm) == pre);
    vassert!("C18.int21_0a.no_output", io::log_len() == 0);
    vcover!("C18.int21_0a.cover.line_longer_than_capacity", flen < 2 || (len > cap && cap >= 1 && off == 1 + cap));
    vcover!("C18.int21_0a.cover.buffer_wraps_1mb", flen < 1 || (start == MBU - 1 && off == 2 && count >= 1));
    vcover!("C18.int21_0a.cover.capacity_zero", flen < 1 || cap == 0);
    vcover!("C18.int21_0a.cover.end_of_input", !(flen == 0 && !fnl) || cap == 255);
    done(vm);
}

#[cfg_attr(kani, kani::proof)]
#[cfg_attr(kani, kani::unwind(12))]
pub fn c18_int21_buffered_len0() {
    buffered_input(0, false);
}

#[cfg_attr(kani, kani::proof)]
#[cfg_attr(kani, kani::unwind(12))]
pub fn c18_int21_buffered_len0nl() {
    buffered_input(0, true);
}

#[cfg_attr(kani, kani::proof)]
#[cfg_attr(kani, kani::unwind(12))]
pub fn c18_int21_buffered_len1nl() {
    buffered_input(1, true);
}

#[cfg_attr(kani, kani::proof)]
#[cfg_attr(kani, kani::unwind(12))]
pub fn c18_int21_buffered_len2() {
    buffered_input(2, false);
}

#[cfg_attr(kani, kani::proof)]
#[cfg_attr(kani, kani::unwind(12))]
pub fn c18_int21_buffered_len2nl() {
    buffered_input(2, true);
}

#[cfg_attr(kani, kani::proof)]
#[cfg_attr(kani, kani::unwind(12))]
pub fn c18_int21_buffered_len3nl__t() {
    buffered_input(3, true);
}



/// INT 10h AH=0Ah: AL written CX times; AH=13h: DL spaces then the CX bytes at (ES*16+BP+i) mod 2^20
fn video(bound: u16) {
    let mut vm = mk_vm();
    vsym!(w_ah: u8);
    vassume!(w_ah == 0x0A || w_ah == 0x13);
    let pre = regs(&vm);
    vassume!(pre.cx <= bound && (pre.dx & 0xFF) <= bound);
    io::log_reset();
    int_13(&vm, w_ah);
    let n = io::log_len();
    if w_ah == 0x0A {
        vassert!("C18.int10_0a.cx_events", n == pre.cx as usize && !io::log_overflow());
        vsym!(w_k: usize);
        if w_k < n {
            vassert!("C18.int10_0a.each_is_al", seq(io::log_fmt(w_k), "{}") && io::log_arg(w_k, 0) == (pre.ax & 0xFF) as u64);
        }
    } else {
        let dl = (pre.dx & 0xFF) as usize;
        vassert!("C18.int10_13.dl_plus_cx_events", n == dl + pre.cx as usize && !io::log_overflow());
        vsym!(w_k: usize);
        if w_k < n {
            if w_k < dl {
                vassert!("C18.int10_13.padding_is_spaces", seq(io::log_fmt(w_k), " "));
            } else {
                let a = (phys(pre.es, pre.bp) + (w_k - dl)) % MBU;
                vassert!("C18.int10_13.string_bytes_in_order", seq(io::log_fmt(w_k), "{}") && io::log_arg(w_k, 0) == vm.mem[a] as u64);
            }
        }
        vcover!("C18.int10_13.cover.string_wraps_1mb", pre.cx == bound && phys(pre.es, pre.bp) == MBU - 1);
    }
    vassert!("C18.int10.registers_and_flags", regs(&vm) == pre);
    done(vm);
}

/// INT 10h AH=0Ah writes AL exactly CX times also for counts beyond one byte (CX up to 260)
#[cfg_attr(kani, kani::proof)]
#[cfg_attr(kani, kani::unwind(263))]
pub fn c18_int10_count() {
    let vm = mk_vm();
    let pre = regs(&vm);
    vassume!(pre.cx <= 260);
    io::log_reset();
    int_13(&vm, 0x0A);
    vassert!("C18.int10_0a.exactly_cx_times", io::log_total() == pre.cx as usize);
    vcover!("C18.int10_0a.cover.count_above_255", pre.cx == 259);
    done(vm);
}

#[cfg_attr(kani, kani::proof)]
#[cfg_attr(kani, kani::unwind(7))]
pub fn c18_int10__q() {
    video(4);
}
#[cfg_attr(kani, kani::proof)]
#[cfg_attr(kani, kani::unwind(11))]
pub fn c18_int10__t() {
    video(8);
}

#[cfg_attr(kani, kani::proof)]
#[cfg_attr(kani, kani::unwind(7))]
pub fn c18_twin_reach() {
    let mut vm = mk_vm();
    io::log_reset();
    let pre = regs(&vm);
    vassume!(pre.dx & 0xFF == 65);
    int_21(&mut vm, 2);
    vassert!("C18.twin.must_fail", io::log_len() == 0);
    done(vm);
}

pub const TABLE: &[(&str, fn())] = &[
    ("c18_int21_putc", c18_int21_putc),
    ("c18_int21_getc_len0", c18_int21_getc_len0),
    ("c18_int21_getc_len2", c18_int21_getc_len2),
    ("c18_int21_getc_len6__t", c18_int21_getc_len6__t),
    ("c18_int21_buffered_len0", c18_int21_buffered_len0),
    ("c18_int21_buffered_len0nl", c18_int21_buffered_len0nl),
    ("c18_int21_buffered_len1nl", c18_int21_buffered_len1nl),
    ("c18_int21_buffered_len2", c18_int21_buffered_len2),
    ("c18_int21_buffered_len2nl", c18_int21_buffered_len2nl),
    ("c18_int21_buffered_len3nl__t", c18_int21_buffered_len3nl__t),
    ("c18_int10_count", c18_int10_count),
    ("c18_int10__q", c18_int10__q),
    ("c18_int10__t", c18_int10__t),
    ("c18_twin_reach", c18_twin_reach),
];
