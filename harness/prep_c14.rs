// C14 (assembler-level classes) and C08 (bookkeeping obligations, assembler side).
// Symbolic table state: the name "v" is absent / a DATA label / a CODE label / a procedure;
// out.code holds L (<= 3) lines already.
use crate::{vassert, vassume, vcover, vsym};
use crate::util::preprocessor_util::{Context as PCtx, Label, Output as POut};

const U: (usize, (), usize) = (0, (), 0);

fn state() -> (PCtx, POut, u8, usize, u16) {
    let mut ctx = PCtx::default();
    let mut out = POut::default();
    out.code.reserve(8);
    // the association lists (Kani build) are pre-reserved: re-allocation paths of Vec only cost time
    #[cfg(kani)]
    {
        ctx.label_map.items.reserve(4);
        ctx.fn_map.items.reserve(4);
        ctx.undefined_labels.items.reserve(4);
    }
    vsym!(w_kind: u8); // 0 absent, 1 DATA label, 2 CODE label, 3 procedure
    vsym!(w_lines: u8);
    vsym!(w_map: u16);
    let kind = w_kind % 4;
    let lines = (w_lines % 4) as usize;
    vsym!(w_last: u8);
    let mut i = 0;
    while i < lines {
        // the most recently emitted line is one of a few representative instructions (a check that
        // looks at the previous line must not change what the next production emits)
        let txt = if i + 1 == lines { match w_last % 4 { 0 => "", 1 => "jmp v", 2 => "ret", _ => "hlt" } } else { "" };
        out.code.push(txt.to_owned());
        i += 1;
    }
    match kind {
        1 => { ctx.label_map.insert("v".to_owned(), Label::new(LabelType::DATA, 0, w_map as usize)); }
        2 => { ctx.label_map.insert("v".to_owned(), Label::new(LabelType::CODE, 0, w_map as usize)); }
        3 => { ctx.fn_map.insert("v".to_owned(), w_map as usize); }
        _ => {}
    }
    (ctx, out, kind, lines, w_map)
}
fn name() -> (usize, String, usize) {
    (0, "v".to_owned(), 0)
}
fn forget3<T>(a: PCtx, b: POut, c: T) {
    std::mem::forget(a);
    std::mem::forget(b);
    std::mem::forget(c);
}

macro_rules! h {
    ($h:ident, $body:block) => {
        #[cfg_attr(kani, kani::proof)]
        #[cfg_attr(kani, kani::unwind(8))]
        #[cfg_attr(kani, kani::stub(alloc::fmt::format, crate::verif_rt::fmt_stub))]
        pub fn $h() $body
    };
}

h!(c14_label_definition, {
    let (mut ctx, mut out, kind, lines, _map) = state();
    let r = p_label__RE_LABEL(&mut ctx, &mut out, "", (0, "v:", 0));
    let dup = kind == 1 || kind == 2;
    vassert!("C14.label.duplicate_rejected", r.is_err() == dup);
    vassert!("C14.label.no_line_pushed", out.code.len() == lines && out.data.len() == 0);
    if !dup {
        // C08: a code label denotes the index of the next instruction to be emitted
        let ok = match ctx.label_map.get("v") {
            Some(l) => l.map == lines && matches!(l.get_type(), LabelType::CODE),
            None => false,
        };
        vassert!("C08.label.maps_to_next_instruction", ok);
    }
    vcover!("C14.label.cover.duplicate_of_data_label", kind == 1);
    forget3(ctx, out, r);
});

h!(c14_proc_definition, {
    let (mut ctx, mut out, kind, lines, _map) = state();
    let r = p_proc_def__quote_proc__name_string(&mut ctx, &mut out, "", U, name());
    vassert!("C14.proc.duplicate_rejected", r.is_err() == (kind == 3));
    vassert!("C14.proc.no_line_pushed", out.code.len() == lines);
    if kind != 3 {
        vassert!("C08.proc.maps_to_first_instruction", ctx.fn_map.get("v") == Some(&lines));
    }
    forget3(ctx, out, r);
});

h!(c14_call, {
    let (mut ctx, mut out, kind, lines, _map) = state();
    let r = p_call__quote_call__name_string(&mut ctx, &mut out, "", U, name());
    vassert!("C14.call.only_procedures", r.is_ok() == (kind == 3));
    vassert!("C14.call.line_iff_accepted", out.code.len() == lines + if kind == 3 { 1 } else { 0 });
    forget3(ctx, out, r);
});

h!(c14_jump_target, {
    let (mut ctx, mut out, kind, lines, _map) = state();
    let r = p_jmps_loops__quote_jmps_loops__name_string(&mut ctx, &mut out, "", (0, "jmp".to_owned(), 0), name());
    // a DATA label is refused; an unknown name is deferred to the driver's undefined-label check
    vassert!("C14.jump.data_label_rejected", r.is_err() == (kind == 1));
    vassert!("C14.jump.line_iff_accepted", out.code.len() == lines + if kind == 1 { 0 } else { 1 });
    if kind == 0 || kind == 3 {
        vassert!("C14.jump.unknown_target_recorded_for_the_driver", ctx.undefined_labels.len() == 1);
    }
    forget3(ctx, out, r);
});

h!(c14_data_operands, {
    let (mut ctx, mut out, kind, lines, map) = state();
    vsym!(w_which: u8);
    let which = w_which % 3;
    let ok = match which {
        0 => {
            let r = p_offset__quote_offset__name_string(&mut ctx, &mut out, "", U, name());
            let ok = match &r { Ok(v) => kind == 1 && *v == map, Err(_) => kind != 1 };
            std::mem::forget(r);
            ok
        }
        1 => {
            let r = p_byte_label__quote_byte_length__name_string(&mut ctx, &mut out, "", (0, "byte".to_owned(), 0), name());
            let ok = r.is_ok() == (kind == 1);
            std::mem::forget(r);
            ok
        }
        _ => {
            let r = p_word_label__quote_word_length__name_string(&mut ctx, &mut out, "", (0, "word".to_owned(), 0), name());
            let ok = r.is_ok() == (kind == 1);
            std::mem::forget(r);
            ok
        }
    };
    vassert!("C14.data_operand.only_data_labels", ok);
    vassert!("C14.data_operand.no_line_pushed", out.code.len() == lines);
    std::mem::forget(ctx);
    std::mem::forget(out);
});

h!(c14_offset_in_byte_context, {
    let (mut ctx, mut out, _kind, lines, _map) = state();
    vsym!(w_off: u16);
    let r = p_u_byte_num__offset(&mut ctx, &mut out, "", (0, w_off, 0));
    let ok = match &r { Ok(v) => w_off <= 255 && *v as u16 == w_off, Err(_) => w_off > 255 };
    vassert!("C14.offset.byte_context_range", ok);
    vassert!("C14.offset.no_line_pushed", out.code.len() == lines);
    forget3(ctx, out, r);
});

h!(c14_int_numbers, {
    let (mut ctx, mut out, _kind, lines, _map) = state();
    vsym!(w_n: u8);
    let r = p_int__quote_int__u_byte_num(&mut ctx, &mut out, "", U, (0, w_n, 0));
    let supported = w_n == 3 || w_n == 0x10 || w_n == 0x21;
    vassert!("C14.int.only_3_10h_21h", r.is_ok() == supported);
    vassert!("C14.int.line_iff_accepted", out.code.len() == lines + supported as usize);
    forget3(ctx, out, r);
});

h!(c14_unsupported, {
    let (mut ctx, mut out, _kind, lines, _map) = state();
    vsym!(w_which: u8);
    vsym!(w_n: u8);
    let s = |t: &str| (0usize, t.to_owned(), 0usize);
    let c = (0usize, ",", 0usize);
    let err = match w_which % 7 {
        0 => { let r = p_op_in__quote_in__gen_byte_reg__COMMA__u_byte_num(&mut ctx, &mut out, "", U, s("al"), c, (0, w_n, 0)); let e = r.is_err(); std::mem::forget(r); e }
        1 => { let r = p_op_in__quote_in__gen_byte_reg__COMMA__gen_byte_reg(&mut ctx, &mut out, "", U, s("al"), c, s("dl")); let e = r.is_err(); std::mem::forget(r); e }
        2 => { let r = p_op_out__quote_out__u_byte_num__COMMA__gen_byte_reg(&mut ctx, &mut out, "", U, (0, w_n, 0), c, s("al")); let e = r.is_err(); std::mem::forget(r); e }
        3 => { let r = p_op_out__quote_out__gen_byte_reg__COMMA__gen_byte_reg(&mut ctx, &mut out, "", U, s("dl"), c, s("al")); let e = r.is_err(); std::mem::forget(r); e }
        4 => { let r = p_load_ptr__quote_load_ptr__gen_reg__COMMA__memory_addr(&mut ctx, &mut out, "", s("lds"), s("ax"), c, s("[bx]")); let e = r.is_err(); std::mem::forget(r); e }
        5 => { let r = p_control_unsupported__quote_control_unsuppoted(&mut ctx, &mut out, "", s("wait")); let e = r.is_err(); std::mem::forget(r); e }
        _ => { let r = p_into_iret__quote_into_iret(&mut ctx, &mut out, "", s("into")); let e = r.is_err(); std::mem::forget(r); e }
    };
    vassert!("C14.unsupported.always_diagnosed", err);
    vassert!("C14.unsupported.no_line_pushed", out.code.len() == lines);
    std::mem::forget(ctx);
    std::mem::forget(out);
});

h!(c14_print_range, {
    let (mut ctx, mut out, _kind, lines, _map) = state();
    vsym!(w_a: u32);
    vsym!(w_n: u32);
    vassume!(w_a < MB && w_n < MB);
    let r = p_print_stmt__quote_print__quote_mem__raw_addr__COLON__raw_addr(&mut ctx, &mut out, "", U, U, (0, w_a, 0), (0, ":", 0), (0, w_n, 0));
    let leaves = w_a as u64 + w_n as u64 >= MB as u64;
    vassert!("C14.print.range_leaving_1mb_rejected", r.is_err() == leaves);
    vassert!("C14.print.line_iff_accepted", out.code.len() == lines + !leaves as usize);
    forget3(ctx, out, r);
});

// ---------------------------------------------------------------- C08 (assembler bookkeeping)
h!(c08_procedure_end_and_ret, {
    let (mut ctx, mut out, _kind, lines, _map) = state();
    vsym!(w_which: bool);
    if w_which {
        // reducing `procedure` appends exactly the implied return
        p_procedure__proc_def__LBRACE__proc_contents__RBRACE(&mut ctx, &mut out, "", U, (0, "{", 0), U, (0, "}", 0));
    } else {
        p_ret__quote_ret(&mut ctx, &mut out, "", U);
    }
    vassert!("C08.ret.exactly_one_line", out.code.len() == lines + 1);
    let last_is_ret = out.code[lines].as_bytes() == "ret".as_bytes();
    vassert!("C08.ret.line_is_ret", last_is_ret);
    std::mem::forget(ctx);
    std::mem::forget(out);
});

h!(c14_twin_reach, {
    let (mut ctx, mut out, kind, lines, _map) = state();
    vassume!(kind == 3 && lines == 2);
    let r = p_call__quote_call__name_string(&mut ctx, &mut out, "", U, name());
    vassert!("C14.twin.must_fail", out.code.len() == 2);
    forget3(ctx, out, r);
});

pub const TABLE: &[(&str, fn())] = &[
    ("c14_label_definition", c14_label_definition),
    ("c14_proc_definition", c14_proc_definition),
    ("c14_call", c14_call),
    ("c14_jump_target", c14_jump_target),
    ("c14_data_operands", c14_data_operands),
    ("c14_offset_in_byte_context", c14_offset_in_byte_context),
    ("c14_int_numbers", c14_int_numbers),
    ("c14_unsupported", c14_unsupported),
    ("c14_print_range", c14_print_range),
    ("c08_procedure_end_and_ret", c08_procedure_end_and_ret),
    ("c14_twin_reach", c14_twin_reach),
];
