// verif_rt — harness runtime shared by every harness.
//
// The same harness source is compiled twice from the scratch copy of /repo:
//   * by the Kani compiler (cfg(kani)): inputs are kani::any(), assertions are
//     CBMC properties, memory is an uninitialised (= nondeterministic) 1 MiB object;
//   * natively (cfg(verif_native)): inputs come from a witness (the values the
//     solver reported), memory is a seeded background fill plus the witness cells,
//     assertions record their label when they fail.  This is the replay judge.
#![allow(dead_code, unused_imports, unused_macros, unused_variables)]

use crate::arch::i8086;
use crate::vm::{MB, VM};

pub const MBU: usize = MB as usize;
pub const STATUS: u16 = 0x08D5; // CF PF AF ZF SF OF

// ------------------------------------------------------------------ native side
#[cfg(not(kani))]
pub mod native {
    use std::cell::RefCell;
    use std::collections::BTreeMap;
    thread_local! {
        pub static WIT: RefCell<BTreeMap<String, i128>> = RefCell::new(BTreeMap::new());
        pub static FAILS: RefCell<Vec<String>> = RefCell::new(Vec::new());
        pub static ASSUME_FAILED: RefCell<Vec<String>> = RefCell::new(Vec::new());
        pub static MISSING: RefCell<Vec<String>> = RefCell::new(Vec::new());
        pub static COVERS: RefCell<Vec<String>> = RefCell::new(Vec::new());
        pub static NOTES: RefCell<Vec<String>> = RefCell::new(Vec::new());
        pub static RNG: RefCell<u64> = RefCell::new(0x9E3779B97F4A7C15);
        pub static RANDOM_MISSING: RefCell<bool> = RefCell::new(false);
    }
    pub fn reset() {
        WIT.with(|w| w.borrow_mut().clear());
        FAILS.with(|w| w.borrow_mut().clear());
        ASSUME_FAILED.with(|w| w.borrow_mut().clear());
        MISSING.with(|w| w.borrow_mut().clear());
        COVERS.with(|w| w.borrow_mut().clear());
        NOTES.with(|w| w.borrow_mut().clear());
    }
    pub fn set(name: &str, v: i128) {
        WIT.with(|w| {
            w.borrow_mut().insert(name.to_owned(), v);
        });
    }
    pub fn seed(s: u64) {
        RNG.with(|r| *r.borrow_mut() = s ^ 0x9E3779B97F4A7C15);
    }
    pub fn next_rand() -> u64 {
        RNG.with(|r| {
            let mut x = *r.borrow();
            x ^= x << 13;
            x ^= x >> 7;
            x ^= x << 17;
            *r.borrow_mut() = x;
            x
        })
    }
    /// value of a symbolic input: from the witness, else (random mode) a boundary-biased
    /// random value that is recorded so the run can be reported, else 0.
    pub fn wit(name: &str) -> i128 {
        if let Some(v) = WIT.with(|w| w.borrow().get(name).cloned()) {
            return v;
        }
        let random = RANDOM_MISSING.with(|r| *r.borrow());
        let v: i128 = if random {
            let r = next_rand();
            match r % 8 {
                0 => 0,
                1 => 0xFFFF_FFFF,
                2 => 1,
                3 => 0x8000,
                4 => 0x7FFF,
                _ => (next_rand() & 0xFFFF_FFFF) as i128,
            }
        } else {
            MISSING.with(|m| m.borrow_mut().push(name.to_owned()));
            0
        };
        set(name, v);
        v
    }
    pub fn fail(label: &str) {
        FAILS.with(|f| f.borrow_mut().push(label.to_owned()));
    }
    pub fn assume_failed(what: &str) {
        ASSUME_FAILED.with(|f| f.borrow_mut().push(what.to_owned()));
    }
    pub fn cover(label: &str) {
        COVERS.with(|f| f.borrow_mut().push(label.to_owned()));
    }
    pub fn note(s: String) {
        NOTES.with(|f| f.borrow_mut().push(s));
    }
    use std::panic;
    pub fn run_one(f: fn()) -> Option<String> {
        let r = panic::catch_unwind(panic::AssertUnwindSafe(|| f()));
        match r {
            Ok(_) => None,
            Err(e) => {
                let msg = if let Some(s) = e.downcast_ref::<&str>() {
                    s.to_string()
                } else if let Some(s) = e.downcast_ref::<String>() {
                    s.clone()
                } else {
                    "panic".to_string()
                };
                Some(msg)
            }
        }
    }

    pub fn report(panic_msg: Option<String>) -> bool {
        let mut bad = false;
        FAILS.with(|f| {
            for l in f.borrow().iter() {
                println!("FAIL {}", l);
                bad = true;
            }
        });
        ASSUME_FAILED.with(|f| {
            for l in f.borrow().iter() {
                println!("ASSUME {}", l);
            }
        });
        MISSING.with(|f| {
            for l in f.borrow().iter() {
                println!("MISSING {}", l);
            }
        });
        COVERS.with(|f| {
            for l in f.borrow().iter() {
                println!("COVER {}", l);
            }
        });
        NOTES.with(|f| {
            for l in f.borrow().iter() {
                println!("NOTE {}", l.replace('\n', "\\n"));
            }
        });
        if let Some(m) = panic_msg {
            println!("PANIC {}", m.replace('\n', "\\n"));
            bad = true;
        }
        bad
    }

    pub fn dump_wit() {
        WIT.with(|w| {
            for (k, v) in w.borrow().iter() {
                println!("WIT {}={}", k, v);
            }
        });
    }

    pub fn replay_cli(t: Vec<(&'static str, fn())>, args: Vec<String>) {
        panic::set_hook(Box::new(|_| {}));
        if args.len() >= 2 && args[1] == "list" {
            for (n, _) in t.iter() {
                println!("{}", n);
            }
            return;
        }
        if args.len() < 4 {
            eprintln!("usage");
            std::process::exit(2);
        }
        let f = match t.iter().find(|(n, _)| *n == args[2]) {
            Some((_, f)) => *f,
            None => {
                println!("NOHARNESS {}", args[2]);
                std::process::exit(2);
            }
        };
        if args[1] == "run" {
            reset();
            let txt = std::fs::read_to_string(&args[3]).unwrap();
            for line in txt.lines() {
                if let Some((k, v)) = line.split_once('=') {
                    if let Ok(v) = v.trim().parse::<i128>() {
                        set(k.trim(), v);
                    }
                }
            }
            let p = run_one(f);
            report(p);
            println!("END");
        } else if args[1] == "random" {
            let seed0: u64 = args[3].parse().unwrap();
            let n: u64 = args[4].parse().unwrap();
            let mut ran = 0u64;
            let mut skipped = 0u64;
            let mut bad_runs = 0u64;
            RANDOM_MISSING.with(|r| *r.borrow_mut() = true);
            // optional: a partial witness (solver trace that omitted some inputs) to be completed
            let pinned: Vec<(String, i128)> = match args.get(5) {
                Some(pth) => std::fs::read_to_string(pth)
                    .unwrap_or_default()
                    .lines()
                    .filter_map(|l| l.split_once('=').and_then(|(k, v)| v.trim().parse::<i128>().ok().map(|v| (k.trim().to_owned(), v))))
                    .collect(),
                None => Vec::new(),
            };
            for i in 0..n {
                reset();
                seed(seed0.wrapping_mul(0x100000001B3).wrapping_add(i));
                set("bg", ((i % 3) + 2) as i128);
                for (k, v) in pinned.iter() {
                    set(k, *v);
                }
                let p = run_one(f);
                let assumed = ASSUME_FAILED.with(|f| !f.borrow().is_empty());
                if assumed && p.is_none() {
                    skipped += 1;
                    continue;
                }
                ran += 1;
                let bad = FAILS.with(|f| !f.borrow().is_empty()) || p.is_some();
                if bad {
                    bad_runs += 1;
                    if bad_runs <= (if pinned.is_empty() { 3 } else { 40 }) {
                        println!("CASE {}", i);
                        report(p);
                        dump_wit();
                    }
                }
            }
            println!("RANDOM ran={} skipped={} bad={}", ran, skipped, bad_runs);
            println!("END");
        }
    }
}

/// known-finding switch: `$kf` is a generated constant crate::verif_gen::KF_<id> (true while the
/// finding is listed as open in known_findings.json).  VERIF_KF_OFF=1 (native only) disables every
/// exclusion; it is used to confirm that a listed finding still fails.
#[cfg(not(kani))]
pub fn kf_on(listed: bool) -> bool {
    listed && std::env::var("VERIF_KF_OFF").is_err()
}
#[cfg(kani)]
pub fn kf_on(listed: bool) -> bool {
    listed
}

pub trait FromWit {
    fn from_wit(v: i128) -> Self;
}
macro_rules! impl_fw {
    ($($t:ty),*) => { $(impl FromWit for $t { fn from_wit(v: i128) -> Self { v as $t } })* };
}
impl_fw!(u8, i8, u16, i16, u32, i32, u64, i64, usize, isize);
impl FromWit for bool {
    fn from_wit(v: i128) -> Self {
        v & 1 != 0
    }
}

/// declare a symbolic input `name: ty`
#[macro_export]
macro_rules! vsym {
    ($n:ident : $t:ty) => {
        #[cfg(kani)]
        let $n: $t = kani::any();
        #[cfg(not(kani))]
        let $n: $t = <$t as $crate::verif_rt::FromWit>::from_wit($crate::verif_rt::native::wit(
            stringify!($n),
        ));
    };
}

/// bind `name` to the (arbitrary) pre-state content of memory cell `addr`.
/// Kani: a read of the nondeterministic memory.  Native: the witness value is stored there.
#[macro_export]
macro_rules! vcell {
    ($vm:expr, $addr:expr, $n:ident) => {
        #[cfg(kani)]
        let $n: u8 = $vm.mem[$addr];
        #[cfg(not(kani))]
        let $n: u8 = {
            let a: usize = $addr;
            let have = $crate::verif_rt::native::WIT.with(|w| w.borrow().contains_key(stringify!($n)));
            if have {
                let v = $crate::verif_rt::native::wit(stringify!($n)) as u8;
                $vm.mem[a] = v;
                v
            } else {
                // not in the witness: keep the background value (and record it)
                let v = $vm.mem[a];
                $crate::verif_rt::native::set(stringify!($n), v as i128);
                v
            }
        };
    };
}

#[macro_export]
macro_rules! vassume {
    ($c:expr) => {
        #[cfg(kani)]
        kani::assume($c);
        #[cfg(not(kani))]
        {
            if !($c) {
                $crate::verif_rt::native::assume_failed(stringify!($c));
                return;
            }
        }
    };
}

#[macro_export]
macro_rules! vassert {
    ($label:expr, $c:expr) => {
        // encoded as a cover of the negation: unlike kani::assert (check + assume) this does not
        // cut the path, so one violated obligation never masks the ones after it.
        // "!label": FAILURE/SATISFIED = the obligation is violated.
        #[cfg(kani)]
        kani::cover(!($c), concat!("!", $label));
        #[cfg(not(kani))]
        {
            if !($c) {
                $crate::verif_rt::native::fail($label);
            }
        }
    };
}

/// assertion with a known-finding exclusion: inside `region` (only while the finding `kf`
/// is listed in known_findings.json) the obligation is not asserted.
#[macro_export]
macro_rules! vassert_kf {
    ($label:expr, $c:expr, $kf:ident, $region:expr) => {
        if !($crate::verif_rt::kf_on($crate::verif_gen::$kf) && ($region)) {
            $crate::vassert!($label, $c);
        }
    };
}

#[macro_export]
macro_rules! vcover {
    ($label:expr, $c:expr) => {
        #[cfg(kani)]
        kani::cover($c, $label);
        #[cfg(not(kani))]
        {
            if $c {
                $crate::verif_rt::native::cover($label);
            }
        }
    };
}

#[macro_export]
macro_rules! vnote {
    ($($a:tt)*) => {
        #[cfg(not(kani))]
        $crate::verif_rt::native::note(format!($($a)*));
    };
}

/// stub for alloc::fmt::format under Kani: error-message text is never the subject of a check
pub fn fmt_stub(_args: std::fmt::Arguments<'_>) -> String {
    String::new()
}

/// stub for core::str::slice_error_fail under Kani: the real one formats a long panic message
/// (symbolic execution of that formatting code does not finish); the panic itself is kept
pub fn slice_fail_stub(_s: &str, _begin: usize, _end: usize) -> ! {
    panic!("str slice index out of range or not on a char boundary")
}

// ------------------------------------------------------------------ machine state
#[derive(Clone, Copy, PartialEq, Eq, Debug)]
pub struct Regs {
    pub flag: u16,
    pub ax: u16,
    pub bx: u16,
    pub cx: u16,
    pub dx: u16,
    pub sp: u16,
    pub bp: u16,
    pub si: u16,
    pub di: u16,
    pub ip: u16,
    pub cs: u16,
    pub ds: u16,
    pub ss: u16,
    pub es: u16,
}

pub fn regs(vm: &VM) -> Regs {
    let a = &vm.arch;
    Regs {
        flag: a.flag,
        ax: a.ax,
        bx: a.bx,
        cx: a.cx,
        dx: a.dx,
        sp: a.sp,
        bp: a.bp,
        si: a.si,
        di: a.di,
        ip: a.ip,
        cs: a.cs,
        ds: a.ds,
        ss: a.ss,
        es: a.es,
    }
}

pub fn set_regs(vm: &mut VM, r: &Regs) {
    let a = &mut vm.arch;
    a.flag = r.flag;
    a.ax = r.ax;
    a.bx = r.bx;
    a.cx = r.cx;
    a.dx = r.dx;
    a.sp = r.sp;
    a.bp = r.bp;
    a.si = r.si;
    a.di = r.di;
    a.ip = r.ip;
    a.cs = r.cs;
    a.ds = r.ds;
    a.ss = r.ss;
    a.es = r.es;
}

#[cfg(kani)]
fn raw_mem() -> Box<[u8; MBU]> {
    // an uninitialised heap object: CBMC gives it nondeterministic contents, i.e. arbitrary memory
    unsafe {
        let p = std::alloc::alloc(std::alloc::Layout::new::<[u8; MBU]>()) as *mut [u8; MBU];
        Box::from_raw(p)
    }
}

#[cfg(not(kani))]
fn raw_mem() -> Box<[u8; MBU]> {
    let bg = native::wit("bg") as u64;
    let mut v = vec![0u8; MBU];
    match bg {
        0 => {}
        1 => {
            for b in v.iter_mut() {
                *b = 0xFF;
            }
        }
        k => {
            for (a, b) in v.iter_mut().enumerate() {
                let mut x = (a as u64).wrapping_mul(0x9E3779B97F4A7C15) ^ k.wrapping_mul(0xD6E8FEB86659FD93);
                x ^= x >> 29;
                x = x.wrapping_mul(0xBF58476D1CE4E5B9);
                x ^= x >> 32;
                *b = x as u8;
            }
        }
    }
    let b: Box<[u8]> = v.into_boxed_slice();
    unsafe { Box::from_raw(Box::into_raw(b) as *mut [u8; MBU]) }
}

/// a machine in an arbitrary state: 14 symbolic registers, arbitrary memory
pub fn mk_vm() -> VM {
    vsym!(w_r_flag: u16);
    vsym!(w_r_ax: u16);
    vsym!(w_r_bx: u16);
    vsym!(w_r_cx: u16);
    vsym!(w_r_dx: u16);
    vsym!(w_r_sp: u16);
    vsym!(w_r_bp: u16);
    vsym!(w_r_si: u16);
    vsym!(w_r_di: u16);
    vsym!(w_r_ip: u16);
    vsym!(w_r_cs: u16);
    vsym!(w_r_ds: u16);
    vsym!(w_r_ss: u16);
    vsym!(w_r_es: u16);
    VM {
        arch: i8086 {
            flag: w_r_flag,
            ax: w_r_ax,
            bx: w_r_bx,
            cx: w_r_cx,
            dx: w_r_dx,
            sp: w_r_sp,
            bp: w_r_bp,
            si: w_r_si,
            di: w_r_di,
            ip: w_r_ip,
            cs: w_r_cs,
            ds: w_r_ds,
            ss: w_r_ss,
            es: w_r_es,
        },
        mem: raw_mem(),
    }
}

/// a machine whose memory is never indexed symbolically by the harness (register-only
/// harnesses): same as mk_vm, kept separate so the runner can pick the cheap SAT back end.
pub fn mk_vm_regs_only() -> VM {
    mk_vm()
}

pub fn done(vm: VM) {
    // drop glue of a 1 MiB box is expensive for the model checker and irrelevant
    std::mem::forget(vm);
}

// ------------------------------------------------------------------ reference oracles
// written from the 8086 Family User's Manual; never call the implementation's helpers.

#[derive(Clone, Copy, PartialEq, Eq, Debug)]
pub struct Fl {
    pub cf: bool,
    pub pf: bool,
    pub af: bool,
    pub zf: bool,
    pub sf: bool,
    pub of: bool,
}

pub fn fl_of(flag: u16) -> Fl {
    Fl {
        cf: flag & 1 != 0,
        pf: flag & 4 != 0,
        af: flag & 0x10 != 0,
        zf: flag & 0x40 != 0,
        sf: flag & 0x80 != 0,
        of: flag & 0x800 != 0,
    }
}

pub fn par8(x: u8) -> bool {
    // even number of set bits in the low byte
    ((x) ^ (x >> 1) ^ (x >> 2) ^ (x >> 3) ^ (x >> 4) ^ (x >> 5) ^ (x >> 6) ^ (x >> 7)) & 1 == 0
}

pub fn ref_add8(a: u8, b: u8, c: bool) -> (u8, Fl) {
    let wide = a as u32 + b as u32 + c as u32;
    let r = wide as u8;
    (
        r,
        Fl {
            cf: wide > 0xFF,
            pf: par8(r),
            af: (a ^ b ^ r) & 0x10 != 0,
            zf: r == 0,
            sf: r & 0x80 != 0,
            of: (a ^ r) & (b ^ r) & 0x80 != 0,
        },
    )
}

pub fn ref_sub8(a: u8, b: u8, c: bool) -> (u8, Fl) {
    let wide = a as i32 - b as i32 - c as i32;
    let r = wide as u8;
    (
        r,
        Fl {
            cf: wide < 0,
            pf: par8(r),
            af: (a ^ b ^ r) & 0x10 != 0,
            zf: r == 0,
            sf: r & 0x80 != 0,
            of: (a ^ b) & (a ^ r) & 0x80 != 0,
        },
    )
}

pub fn ref_add16(a: u16, b: u16, c: bool) -> (u16, Fl) {
    let wide = a as u32 + b as u32 + c as u32;
    let r = wide as u16;
    (
        r,
        Fl {
            cf: wide > 0xFFFF,
            pf: par8(r as u8),
            af: (a ^ b ^ r) & 0x10 != 0,
            zf: r == 0,
            sf: r & 0x8000 != 0,
            of: (a ^ r) & (b ^ r) & 0x8000 != 0,
        },
    )
}

pub fn ref_sub16(a: u16, b: u16, c: bool) -> (u16, Fl) {
    let wide = a as i32 - b as i32 - c as i32;
    let r = wide as u16;
    (
        r,
        Fl {
            cf: wide < 0,
            pf: par8(r as u8),
            af: (a ^ b ^ r) & 0x10 != 0,
            zf: r == 0,
            sf: r & 0x8000 != 0,
            of: (a ^ b) & (a ^ r) & 0x8000 != 0,
        },
    )
}

/// physical address of seg:off
pub fn phys(seg: u16, off: u16) -> usize {
    ((seg as usize) * 16 + off as usize) % MBU
}
pub fn nxt(a: usize) -> usize {
    (a + 1) % MBU
}
