// C17: print reg / flags / mem (driver/print.rs, binary crate) show the true machine state and
// never change it.  Output goes to the ghost log (verif_io): format literal + argument VALUES; the
// argument expressions are the real ones.  Turning a logged value into text ({:04X}, {:02X}) is
// std::fmt and trusted.
use emulator_8086_lib::{vassert, vassume, vcell, vcover, vsym};
use crate::driver::verif_io as io;

fn seq(a: &str, b: &str) -> bool {
    a.as_bytes() == b.as_bytes()
}

/// register named by the two characters before the k-th "{" of a format literal
fn label_before_placeholder(fmt: &str, k: usize) -> (u8, u8, bool) {
    let b = fmt.as_bytes();
    let mut seen = 0usize;
    let mut i = 0usize;
    while i < b.len() {
        if b[i] == b'{' {
            if seen == k {
                // labels look like "AX : 0x{:04X}" / "OF : {}": walk back over " : 0x" to the name
                let mut j = i;
                while j > 0 && !(b[j - 1] >= b'A' && b[j - 1] <= b'Z') {
                    j -= 1;
                }
                if j >= 2 {
                    let spec04 = i + 5 < b.len() + 1 && b[i + 1] == b':' && b[i + 2] == b'0' && b[i + 3] == b'4' && b[i + 4] == b'X' && b[i + 5] == b'}';
                    return (b[j - 2], b[j - 1], spec04);
                }
                return (0, 0, false);
            }
            seen += 1;
        }
        i += 1;
    }
    (0, 0, false)
}

fn reg_by_name(r: &Regs, a: u8, b: u8) -> Option<u16> {
    match (a, b) {
        (b'A', b'X') => Some(r.ax),
        (b'B', b'X') => Some(r.bx),
        (b'C', b'X') => Some(r.cx),
        (b'D', b'X') => Some(r.dx),
        (b'S', b'P') => Some(r.sp),
        (b'B', b'P') => Some(r.bp),
        (b'S', b'I') => Some(r.si),
        (b'D', b'I') => Some(r.di),
        (b'C', b'S') => Some(r.cs),
        (b'S', b'S') => Some(r.ss),
        (b'D', b'S') => Some(r.ds),
        (b'E', b'S') => Some(r.es),
        _ => None,
    }
}
fn flag_by_name(flag: u16, a: u8, b: u8) -> Option<u64> {
    if b != b'F' {
        return None;
    }
    let bit = match a {
        b'O' => 11,
        b'D' => 10,
        b'I' => 9,
        b'T' => 8,
        b'S' => 7,
        b'Z' => 6,
        b'A' => 4,
        b'P' => 2,
        b'C' => 0,
        _ => return None,
    };
    Some(((flag >> bit) & 1) as u64)
}

/// print reg: every placeholder shows the register its label names, as {:04X}; all twelve
/// registers appear; print flags: the nine flags as 0/1 under their labels
#[cfg_attr(kani, kani::proof)]
#[cfg_attr(kani, kani::unwind(100))]
pub fn c17_print_reg_flags() {
    let vm = mk_vm();
    vsym!(w_flags: bool);
    let pre = regs(&vm);
    io::log_reset();
    if w_flags {
        p_Print__T_print__T_flags(&vm, "", (0, "print", 0), (0, "flags", 0));
        vassert!("C17.flags.one_line", io::log_len() == 1 && io::log_nargs(0) == 9);
        let mut ok = true;
        let mut k = 0;
        while k < 9 {
            let (a, b, _) = label_before_placeholder(io::log_fmt(0), k);
            match flag_by_name(pre.flag, a, b) {
                Some(v) => {
                    if io::log_arg(0, k) != v {
                        ok = false;
                    }
                }
                None => ok = false,
            }
            k += 1;
        }
        vassert!("C17.flags.each_value_under_its_label", ok);
    } else {
        p_Print__T_print__T_reg(&vm, "", (0, "print", 0), (0, "reg", 0));
        let mut ok = true;
        let mut seen: u16 = 0;
        let mut shown = 0usize;
        let mut e = 0;
        while e < io::log_len() && e < 8 {
            let mut k = 0;
            while k < io::log_nargs(e) && k < 2 {
                let (a, b, spec) = label_before_placeholder(io::log_fmt(e), k);
                match reg_by_name(&pre, a, b) {
                    Some(v) => {
                        if io::log_arg(e, k) != v as u64 || !spec {
                            ok = false;
                        }
                        seen |= 1 << ((a as u16 * 7 + b as u16) % 16);
                        shown += 1;
                    }
                    None => ok = false,
                }
                k += 1;
            }
            e += 1;
        }
        vassert!("C17.reg.each_value_under_its_label_as_04X", ok);
        vassert!("C17.reg.twelve_registers", shown == 12 && io::log_len() <= 8);
    }
    vassert!("C17.reg_flags.machine_unchanged", regs(&vm) == pre);
    done(vm);
}

/// print mem: exactly the bytes of the inclusive range, in address order, as {:02X}, 16 per row;
/// backwards or out-of-space ranges are reported instead; no index outside memory; machine unchanged
fn print_mem(maxlen: usize, w_form: u8) {
    let vm = mk_vm();
    vsym!(w_a: usize);
    vsym!(w_b: usize);
    vsym!(w_k: usize);
    vassume!(w_a < MBU && w_b < MBU);
    let pre = regs(&vm);
    io::log_reset();
    // (start, end) of the requested inclusive range, as the statement defines the three forms
    let (start, end, rejected): (usize, usize, bool) = match w_form {
        0 => (w_a, w_b, w_a > w_b),
        1 => (w_a, w_a + w_b, w_a + w_b >= MBU),
        _ => (pre.ds as usize * 16, pre.ds as usize * 16 + w_b, pre.ds as usize * 16 + w_b >= MBU),
    };
    vassume!(rejected || end - start < maxlen);
    let mut parse_err = false;
    match w_form {
        0 => p_Print__T_print__T_mem__raw_addr__ARROW__raw_addr(&vm, "", (0, "print", 0), (0, "mem", 0), (0, w_a, 0), (0, "->", 0), (0, w_b, 0)),
        1 => {
            let r = p_Print__T_print__T_mem__raw_addr__COLON__raw_addr(&vm, "", (0, "print", 0), (0, "mem", 0), (0, w_a, 0), (0, ":", 0), (0, w_b, 0));
            parse_err = r.is_err();
            std::mem::forget(r);
        }
        _ => p_Print__T_print__T_mem__COLON__raw_addr(&vm, "", (0, "print", 0), (0, "mem", 0), (0, ":", 0), (0, w_b, 0)),
    }
    // count byte events and find the w_k-th one
    let n = io::log_len();
    let mut bytes = 0usize;
    let mut kth_val: u64 = 0;
    let mut kth_found = false;
    let mut row_ok = true;
    let mut i = 0;
    while i < n {
        if io::log_kind(i) == 1 {
            if bytes == w_k {
                kth_val = io::log_arg(i, 0);
                kth_found = true;
            }
            bytes += 1;
            // after every 16th byte of a row a line break follows before the next byte
            if bytes % 16 == 0 {
                let mut j = i + 1;
                let mut br = false;
                while j < n && io::log_kind(j) != 1 {
                    if io::log_kind(j) == 2 {
                        br = true;
                    }
                    j += 1;
                }
                if !br {
                    row_ok = false;
                }
            }
        }
        i += 1;
    }
    if rejected {
        vassert!("C17.mem.bad_range_reported_not_printed", bytes == 0 && (parse_err || n >= 1));
    } else {
        vassert!("C17.mem.exactly_the_range", bytes == end - start + 1 && !io::log_overflow() && !parse_err);
        if w_k < bytes {
            vassert!("C17.mem.kth_byte_in_address_order", kth_found && kth_val == vm.mem[start + w_k] as u64);
        }
        vassert!("C17.mem.sixteen_per_row", row_ok);
    }
    vassert!("C17.mem.machine_unchanged", regs(&vm) == pre);
    vcover!("C17.mem.cover.range_ends_at_last_byte", !rejected && end == MBU - 1 && bytes >= 2);
    vcover!("C17.mem.cover.seventeen_bytes", !rejected && bytes == 17);
    vcover!("C17.mem.cover.ds_relative", w_form != 2 || (!rejected && pre.ds == 0xFFF0 && bytes == 3));
    done(vm);
}

#[cfg_attr(kani, kani::proof)]
#[cfg_attr(kani, kani::unwind(30))]
pub fn c17_print_mem_range() {
    print_mem(17, 0);
}
#[cfg_attr(kani, kani::proof)]
#[cfg_attr(kani, kani::unwind(30))]
pub fn c17_print_mem_count() {
    print_mem(17, 1);
}
#[cfg_attr(kani, kani::proof)]
#[cfg_attr(kani, kani::unwind(30))]
pub fn c17_print_mem_ds() {
    print_mem(17, 2);
}

#[cfg_attr(kani, kani::proof)]
#[cfg_attr(kani, kani::unwind(60))]
pub fn c17_print_mem_range__t() {
    print_mem(34, 0);
}

#[cfg_attr(kani, kani::proof)]
#[cfg_attr(kani, kani::unwind(40))]
pub fn c17_twin_reach() {
    // (unwind 40 is enough for the two-byte range)
    let vm = mk_vm();
    io::log_reset();
    p_Print__T_print__T_mem__raw_addr__ARROW__raw_addr(&vm, "", (0, "print", 0), (0, "mem", 0), (0, 5, 0), (0, "->", 0), (0, 6, 0));
    vassert!("C17.twin.must_fail", io::log_len() == 0);
    done(vm);
}

pub const TABLE: &[(&str, fn())] = &[
    ("c17_print_reg_flags", c17_print_reg_flags),
    ("c17_print_mem_range", c17_print_mem_range),
    ("c17_print_mem_count", c17_print_mem_count),
    ("c17_print_mem_ds", c17_print_mem_ds),
    ("c17_print_mem_range__t", c17_print_mem_range__t),
    ("c17_twin_reach", c17_twin_reach),
];
