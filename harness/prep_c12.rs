// C12 (assembler side): every data directive records its label at the current counter, advances
// the counter by exactly the size the loader will consume, pushes exactly one data line, and
// diagnoses (Err, nothing recorded) a segment that would exceed 64 KiB.
use crate::{vassert, vassume, vcover, vsym};
use crate::util::preprocessor_util::{Context as PCtx, Output as POut};

fn ctx_out() -> (PCtx, POut) {
    let mut out = POut::default();
    out.data.reserve(4);
    (PCtx::default(), out)
}

macro_rules! directive {
    ($h:ident, $name:expr, $size:expr, $with_label:expr, $call:expr) => {
        #[cfg_attr(kani, kani::proof)]
        #[cfg_attr(kani, kani::unwind(8))]
        #[cfg_attr(kani, kani::stub(alloc::fmt::format, crate::verif_rt::fmt_stub))]
        pub fn $h() {
            let (mut ctx, mut out) = ctx_out();
            vsym!(w_c: u16);
            vsym!(w_n: u16);
            vsym!(w_vb: i8);
            vsym!(w_vw: i16);
            ctx.data_counter = w_c;
            let size: usize = ($size)(w_n as usize);
            let r = ($call)(&mut ctx, &mut out, w_n, w_vb, w_vw);
            // a segment of exactly 64 KiB does not "exceed" 64 KiB: both answers are accepted there
            let total = w_c as usize + size;
            let fits = r.is_ok();
            vassert!(concat!("C12.asm.", $name, ".diagnosed_iff_segment_overflows"), (total > 0xFFFF || fits) && (total <= 0x10000 || !fits));
            if fits {
                vassert!(concat!("C12.asm.", $name, ".counter_advances_by_size"), ctx.data_counter as usize == total || total == 0x10000);
                vassert!(concat!("C12.asm.", $name, ".one_data_line"), out.data.len() == 1 && out.code.len() == 0);
                if $with_label {
                    let ok = match ctx.label_map.get("v") {
                        Some(l) => l.map == w_c as usize && matches!(l.get_type(), LabelType::DATA),
                        None => false,
                    };
                    vassert!(concat!("C12.asm.", $name, ".label_is_offset_of_first_byte"), ok);
                }
            } else {
                vassert!(concat!("C12.asm.", $name, ".nothing_recorded_on_error"),
                    ctx.data_counter == w_c && out.data.len() == 0 && ctx.label_map.get("v").is_none());
            }
            vcover!(concat!("C12.asm.", $name, ".cover.exactly_full"), w_c as usize + size == 0xFFFF);
            std::mem::forget(r);
            std::mem::forget(ctx);
            std::mem::forget(out);
        }
    };
}

const L: (usize, &str, usize) = (0, "[", 0);
const R: (usize, &str, usize) = (0, "]", 0);
const CM: (usize, &str, usize) = (0, ",", 0);
fn lab() -> (usize, String, usize) {
    (0, "v".to_owned(), 0)
}
const U: (usize, (), usize) = (0, (), 0);

directive!(c12a_db_value, "db_value", |_n| 1, false, |c: &mut PCtx, o: &mut POut, _n: u16, vb: i8, _vw: i16| p_db_directive__quote_db__s_byte_num(c, o, "", U, (0, vb, 0)));
directive!(c12a_db_value_l, "db_value_labelled", |_n| 1, true, |c: &mut PCtx, o: &mut POut, _n: u16, vb: i8, _vw: i16| p_db_directive__label__quote_db__s_byte_num(c, o, "", lab(), U, (0, vb, 0)));
directive!(c12a_db_zeros, "db_zeros", |n| n, false, |c: &mut PCtx, o: &mut POut, n: u16, _vb: i8, _vw: i16| p_db_directive__quote_db__LB__u_word_num__RB(c, o, "", U, L, (0, n, 0), R));
directive!(c12a_db_zeros_l, "db_zeros_labelled", |n| n, true, |c: &mut PCtx, o: &mut POut, n: u16, _vb: i8, _vw: i16| p_db_directive__label__quote_db__LB__u_word_num__RB(c, o, "", lab(), U, L, (0, n, 0), R));
directive!(c12a_db_fill, "db_fill", |n| n, false, |c: &mut PCtx, o: &mut POut, n: u16, vb: i8, _vw: i16| p_db_directive__quote_db__LB__s_byte_num__COMMA__u_word_num__RB(c, o, "", U, L, (0, vb, 0), CM, (0, n, 0), R));
directive!(c12a_db_fill_l, "db_fill_labelled", |n| n, true, |c: &mut PCtx, o: &mut POut, n: u16, vb: i8, _vw: i16| p_db_directive__label__quote_db__LB__s_byte_num__COMMA__u_word_num__RB(c, o, "", lab(), U, L, (0, vb, 0), CM, (0, n, 0), R));
directive!(c12a_db_string, "db_string", |_n| 3, false, |c: &mut PCtx, o: &mut POut, _n: u16, _vb: i8, _vw: i16| p_db_directive__quote_db__RE_PSTR(c, o, "", U, (0, "\"a b\"", 0)));
directive!(c12a_db_string_l, "db_string_labelled", |_n| 1, true, |c: &mut PCtx, o: &mut POut, _n: u16, _vb: i8, _vw: i16| p_db_directive__label__quote_db__RE_PSTR(c, o, "", lab(), U, (0, "\"Z\"", 0)));
directive!(c12a_dw_value, "dw_value", |_n| 2, false, |c: &mut PCtx, o: &mut POut, _n: u16, _vb: i8, vw: i16| p_dw_directive__quote_dw__s_word_num(c, o, "", U, (0, vw, 0)));
directive!(c12a_dw_value_l, "dw_value_labelled", |_n| 2, true, |c: &mut PCtx, o: &mut POut, _n: u16, _vb: i8, vw: i16| p_dw_directive__label__quote_dw__s_word_num(c, o, "", lab(), U, (0, vw, 0)));
directive!(c12a_dw_zeros, "dw_zeros", |n| 2 * n, false, |c: &mut PCtx, o: &mut POut, n: u16, _vb: i8, _vw: i16| p_dw_directive__quote_dw__LB__u_word_num__RB(c, o, "", U, L, (0, n, 0), R));
directive!(c12a_dw_zeros_l, "dw_zeros_labelled", |n| 2 * n, true, |c: &mut PCtx, o: &mut POut, n: u16, _vb: i8, _vw: i16| p_dw_directive__label__quote_dw__LB__u_word_num__RB(c, o, "", lab(), U, L, (0, n, 0), R));
directive!(c12a_dw_fill, "dw_fill", |n| 2 * n, false, |c: &mut PCtx, o: &mut POut, n: u16, _vb: i8, vw: i16| p_dw_directive__quote_dw__LB__s_word_num__COMMA__u_word_num__RB(c, o, "", U, L, (0, vw, 0), CM, (0, n, 0), R));
directive!(c12a_dw_fill_l, "dw_fill_labelled", |n| 2 * n, true, |c: &mut PCtx, o: &mut POut, n: u16, _vb: i8, vw: i16| p_dw_directive__label__quote_dw__LB__s_word_num__COMMA__u_word_num__RB(c, o, "", lab(), U, L, (0, vw, 0), CM, (0, n, 0), R));
directive!(c12a_dw_string, "dw_string", |_n| 4, false, |c: &mut PCtx, o: &mut POut, _n: u16, _vb: i8, _vw: i16| p_dw_directive__quote_dw__RE_PSTR(c, o, "", U, (0, "\"zQ\"", 0)));
directive!(c12a_dw_string_l, "dw_string_labelled", |_n| 2, true, |c: &mut PCtx, o: &mut POut, _n: u16, _vb: i8, _vw: i16| p_dw_directive__label__quote_dw__RE_PSTR(c, o, "", lab(), U, (0, "\"A\"", 0)));

/// SET resets the counter and emits one data line
#[cfg_attr(kani, kani::proof)]
#[cfg_attr(kani, kani::unwind(8))]
#[cfg_attr(kani, kani::stub(alloc::fmt::format, crate::verif_rt::fmt_stub))]
pub fn c12a_set() {
    let (mut ctx, mut out) = ctx_out();
    vsym!(w_c: u16);
    vsym!(w_n: u16);
    ctx.data_counter = w_c;
    p_set_directive__quote_set__u_word_num(&mut ctx, &mut out, "", U, (0, w_n, 0));
    vassert!("C12.asm.set.counter_reset", ctx.data_counter == 0);
    vassert!("C12.asm.set.one_data_line", out.data.len() == 1 && out.code.len() == 0);
    std::mem::forget(ctx);
    std::mem::forget(out);
}

pub const TABLE: &[(&str, fn())] = &[
    ("c12a_db_value", c12a_db_value), ("c12a_db_value_l", c12a_db_value_l),
    ("c12a_db_zeros", c12a_db_zeros), ("c12a_db_zeros_l", c12a_db_zeros_l),
    ("c12a_db_fill", c12a_db_fill), ("c12a_db_fill_l", c12a_db_fill_l),
    ("c12a_db_string", c12a_db_string), ("c12a_db_string_l", c12a_db_string_l),
    ("c12a_dw_value", c12a_dw_value), ("c12a_dw_value_l", c12a_dw_value_l),
    ("c12a_dw_zeros", c12a_dw_zeros), ("c12a_dw_zeros_l", c12a_dw_zeros_l),
    ("c12a_dw_fill", c12a_dw_fill), ("c12a_dw_fill_l", c12a_dw_fill_l),
    ("c12a_dw_string", c12a_dw_string), ("c12a_dw_string_l", c12a_dw_string_l),
    ("c12a_set", c12a_set),
];
