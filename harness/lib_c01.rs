// C01 (A-harnesses): ADD/ADC/SUB/SBB/CMP/INC/DEC/NEG kernels vs. the reference,
// for every operand pair, every incoming flag word, arbitrary registers and memory.
use crate::instructions::arithmetic::*;
use crate::verif_rt::*;
use crate::{vassert, vassert_kf, vassume, vcell, vcover, vsym};

macro_rules! flags_and_frame {
    ($name:expr, $vm:expr, $pre:expr, $ef:expr, $keep_cf:expr, $w_p:expr, $w_pv:expr,
     $cf_kf:ident, $cf_region:expr, $sf_kf:ident, $sf_region:expr) => {{
        let post = regs(&$vm);
        let pf = fl_of(post.flag);
        let ecf = if $keep_cf { fl_of($pre.flag).cf } else { $ef.cf };
        vassert_kf!(concat!("C01.", $name, ".CF"), pf.cf == ecf, $cf_kf, $cf_region);
        vassert!(concat!("C01.", $name, ".PF"), pf.pf == $ef.pf);
        vassert!(concat!("C01.", $name, ".AF"), pf.af == $ef.af);
        vassert!(concat!("C01.", $name, ".ZF"), pf.zf == $ef.zf);
        vassert_kf!(concat!("C01.", $name, ".SF"), pf.sf == $ef.sf, $sf_kf, $sf_region);
        vassert!(concat!("C01.", $name, ".OF"), pf.of == $ef.of);
        vassert!(
            concat!("C01.", $name, ".otherflags"),
            post.flag & !STATUS == $pre.flag & !STATUS
        );
        let mut p2 = post;
        p2.flag = $pre.flag;
        vassert!(concat!("C01.", $name, ".regs"), p2 == $pre);
        vassert!(concat!("C01.", $name, ".mem"), $vm.mem[$w_p] == $w_pv);
    }};
}

macro_rules! bin_harness {
    ($h:ident, $name:expr, $f:ident, $t:ty, $oracle:expr) => {
        #[cfg_attr(kani, kani::proof)]
        pub fn $h() {
            let mut vm = mk_vm();
            vsym!(w_op1: $t);
            vsym!(w_op2: $t);
            vsym!(w_p: usize);
            vassume!(w_p < MBU);
            vcell!(vm, w_p, w_pv);
            let pre = regs(&vm);
            let r = $f(&mut vm, w_op1, w_op2);
            let (er, ef): ($t, Fl) = ($oracle)(w_op1, w_op2, fl_of(pre.flag).cf);
            vassert!(concat!("C01.", $name, ".res"), r == er);
            vcover!(concat!("C01.", $name, ".cover.carry"), ef.cf);
            vcover!(concat!("C01.", $name, ".cover.overflow"), ef.of);
            flags_and_frame!($name, vm, pre, ef, false, w_p, w_pv, KF_NONE, false, KF_NONE, false);
            done(vm);
        }
    };
}

macro_rules! un_harness {
    ($h:ident, $name:expr, $f:ident, $t:ty, $keep_cf:expr, $oracle:expr,
     $cf_kf:ident, $cf_region:expr, $sf_kf:ident, $sf_region:expr) => {
        #[cfg_attr(kani, kani::proof)]
        pub fn $h() {
            let mut vm = mk_vm();
            vsym!(w_op1: $t);
            vsym!(w_p: usize);
            vassume!(w_p < MBU);
            vcell!(vm, w_p, w_pv);
            let pre = regs(&vm);
            let mut v: $t = w_op1;
            let res = $f(&mut vm, &mut v);
            vassert!(concat!("C01.", $name, ".ok"), res.is_ok());
            let (er, ef): ($t, Fl) = ($oracle)(w_op1);
            vassert!(concat!("C01.", $name, ".res"), v == er);
            vcover!(concat!("C01.", $name, ".cover.overflow"), ef.of);
            let in_cf = fl_of(pre.flag).cf;
            let in_sf = fl_of(pre.flag).sf;
            flags_and_frame!($name, vm, pre, ef, $keep_cf, w_p, w_pv,
                $cf_kf, ($cf_region)(w_op1, in_cf), $sf_kf, ($sf_region)(w_op1, in_sf));
            done(vm);
        }
    };
}

bin_harness!(c01_byte_add, "byte_add", byte_add, u8, |a, b, _c| ref_add8(a, b, false));
bin_harness!(c01_byte_adc, "byte_adc", byte_adc, u8, |a, b, c| ref_add8(a, b, c));
bin_harness!(c01_byte_sub, "byte_sub", byte_sub, u8, |a, b, _c| ref_sub8(a, b, false));
bin_harness!(c01_byte_sbb, "byte_sbb", byte_sbb, u8, |a, b, c| ref_sub8(a, b, c));
bin_harness!(c01_byte_cmp, "byte_cmp", byte_cmp, u8, |a, b, _c| {
    let (_, f) = ref_sub8(a, b, false);
    (a, f)
});
bin_harness!(c01_word_add, "word_add", word_add, u16, |a, b, _c| ref_add16(a, b, false));
bin_harness!(c01_word_adc, "word_adc", word_adc, u16, |a, b, c| ref_add16(a, b, c));
bin_harness!(c01_word_sub, "word_sub", word_sub, u16, |a, b, _c| ref_sub16(a, b, false));
bin_harness!(c01_word_sbb, "word_sbb", word_sbb, u16, |a, b, c| ref_sub16(a, b, c));
bin_harness!(c01_word_cmp, "word_cmp", word_cmp, u16, |a, b, _c| {
    let (_, f) = ref_sub16(a, b, false);
    (a, f)
});

// Known findings (the repository's own test suite pins these behaviours, so they cannot be
// repaired without editing tests): INC/DEC overwrite CF with the carry/borrow of the +-1;
// NEG of 0 keeps the incoming SF.  The obligation is asserted everywhere outside the region
// in which the defective and the specified behaviour differ.
un_harness!(c01_byte_inc, "byte_inc", byte_inc, u8, true, |a| ref_add8(a, 1, false),
    KF_C01_inc_CF, |a: u8, cf: bool| cf != (a == 0xFF), KF_NONE, |_a: u8, _s: bool| false);
un_harness!(c01_byte_dec, "byte_dec", byte_dec, u8, true, |a| ref_sub8(a, 1, false),
    KF_C01_dec_CF, |a: u8, cf: bool| cf != (a == 0), KF_NONE, |_a: u8, _s: bool| false);
un_harness!(c01_byte_neg, "byte_neg", byte_neg, u8, false, |a| ref_sub8(0, a, false),
    KF_NONE, |_a: u8, _c: bool| false, KF_C01_neg0_SF, |a: u8, sf: bool| a == 0 && sf);
un_harness!(c01_word_inc, "word_inc", word_inc, u16, true, |a| ref_add16(a, 1, false),
    KF_C01_inc_CF, |a: u16, cf: bool| cf != (a == 0xFFFF), KF_NONE, |_a: u16, _s: bool| false);
un_harness!(c01_word_dec, "word_dec", word_dec, u16, true, |a| ref_sub16(a, 1, false),
    KF_C01_dec_CF, |a: u16, cf: bool| cf != (a == 0), KF_NONE, |_a: u16, _s: bool| false);
un_harness!(c01_word_neg, "word_neg", word_neg, u16, false, |a| ref_sub16(0, a, false),
    KF_NONE, |_a: u16, _c: bool| false, KF_C01_neg0_SF, |a: u16, sf: bool| a == 0 && sf);

// vacuity twin: must FAIL
#[cfg_attr(kani, kani::proof)]
pub fn c01_twin_reach() {
    let mut vm = mk_vm();
    vsym!(w_op1: u8);
    vsym!(w_op2: u8);
    let _ = byte_add(&mut vm, w_op1, w_op2);
    vassert!("C01.twin.must_fail", false);
    done(vm);
}

pub const TABLE: &[(&str, fn())] = &[
    ("c01_byte_add", c01_byte_add),
    ("c01_byte_adc", c01_byte_adc),
    ("c01_byte_sub", c01_byte_sub),
    ("c01_byte_sbb", c01_byte_sbb),
    ("c01_byte_cmp", c01_byte_cmp),
    ("c01_word_add", c01_word_add),
    ("c01_word_adc", c01_word_adc),
    ("c01_word_sub", c01_word_sub),
    ("c01_word_sbb", c01_word_sbb),
    ("c01_word_cmp", c01_word_cmp),
    ("c01_byte_inc", c01_byte_inc),
    ("c01_byte_dec", c01_byte_dec),
    ("c01_byte_neg", c01_byte_neg),
    ("c01_word_inc", c01_word_inc),
    ("c01_word_dec", c01_word_dec),
    ("c01_word_neg", c01_word_neg),
    ("c01_twin_reach", c01_twin_reach),
];
