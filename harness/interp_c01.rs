// C01 (B-harnesses): the 16 binary_arithmetic and 6 unary_arithmetic (INC/DEC/NEG) productions.
// Instantiations written by lib/mk_interp_harness.py; the bodies are the macros of interp_ab_ops.rs.
use crate::{vassert, vassume, vcell, vcover, vsym};

binop8!(c01b_arithmetic_rr8, "C01b.arithmetic.rr8", nt_byte_binary_arithmetic, NT_byte_binary_arithmetic_N, NT_byte_binary_arithmetic_TEXT, dst_reg8, src_reg8, true, no,
    |vm: &mut VM, ctx: &mut Context, f, d: &Op, s: &Op| p_binary_arithmetic__byte_binary_arithmetic__byte_reg__COMMA__byte_reg(CUR, vm, ctx, "", (0, f, 0), (0, d.b, 0), C, (0, s.b, 0)));
frame_only!(c01b_arithmetic_rr8_frame, "C01b.arithmetic.rr8", nt_byte_binary_arithmetic, NT_byte_binary_arithmetic_N, dst_reg8, src_reg8,
    |vm: &mut VM, ctx: &mut Context, f, d: &Op, s: &Op| p_binary_arithmetic__byte_binary_arithmetic__byte_reg__COMMA__byte_reg(CUR, vm, ctx, "", (0, f, 0), (0, d.b, 0), C, (0, s.b, 0)));
binop8!(c01b_arithmetic_rm8, "C01b.arithmetic.rm8", nt_byte_binary_arithmetic, NT_byte_binary_arithmetic_N, NT_byte_binary_arithmetic_TEXT, dst_reg8, opnd_mem, true, yes,
    |vm: &mut VM, ctx: &mut Context, f, d: &Op, s: &Op| p_binary_arithmetic__byte_binary_arithmetic__byte_reg__COMMA__T_byte__memory_addr(CUR, vm, ctx, "", (0, f, 0), (0, d.b, 0), C, KB, (0, s.m, 0)));
binop8!(c01b_arithmetic_rl8, "C01b.arithmetic.rl8", nt_byte_binary_arithmetic, NT_byte_binary_arithmetic_N, NT_byte_binary_arithmetic_TEXT, dst_reg8, opnd_lab, true, yes,
    |vm: &mut VM, ctx: &mut Context, f, d: &Op, s: &Op| p_binary_arithmetic__byte_binary_arithmetic__byte_reg__COMMA__byte_label(CUR, vm, ctx, "", (0, f, 0), (0, d.b, 0), C, (0, s.m, 0)));
binop8!(c01b_arithmetic_mr8, "C01b.arithmetic.mr8", nt_byte_binary_arithmetic, NT_byte_binary_arithmetic_N, NT_byte_binary_arithmetic_TEXT, opnd_mem, src_reg8, true, yes,
    |vm: &mut VM, ctx: &mut Context, f, d: &Op, s: &Op| p_binary_arithmetic__byte_binary_arithmetic__T_byte__memory_addr__COMMA__byte_reg(CUR, vm, ctx, "", (0, f, 0), KB, (0, d.m, 0), C, (0, s.b, 0)));
binop8!(c01b_arithmetic_lr8, "C01b.arithmetic.lr8", nt_byte_binary_arithmetic, NT_byte_binary_arithmetic_N, NT_byte_binary_arithmetic_TEXT, opnd_lab, src_reg8, true, yes,
    |vm: &mut VM, ctx: &mut Context, f, d: &Op, s: &Op| p_binary_arithmetic__byte_binary_arithmetic__byte_label__COMMA__byte_reg(CUR, vm, ctx, "", (0, f, 0), (0, d.m, 0), C, (0, s.b, 0)));
binop8!(c01b_arithmetic_ri8, "C01b.arithmetic.ri8", nt_byte_binary_arithmetic, NT_byte_binary_arithmetic_N, NT_byte_binary_arithmetic_TEXT, dst_reg8, src_imm_s8, true, no,
    |vm: &mut VM, ctx: &mut Context, f, d: &Op, s: &Op| p_binary_arithmetic__byte_binary_arithmetic__byte_reg__COMMA__s_byte_num(CUR, vm, ctx, "", (0, f, 0), (0, d.b, 0), C, (0, s.imm as u8 as i8, 0)));
frame_only!(c01b_arithmetic_ri8_frame, "C01b.arithmetic.ri8", nt_byte_binary_arithmetic, NT_byte_binary_arithmetic_N, dst_reg8, src_imm_s8,
    |vm: &mut VM, ctx: &mut Context, f, d: &Op, s: &Op| p_binary_arithmetic__byte_binary_arithmetic__byte_reg__COMMA__s_byte_num(CUR, vm, ctx, "", (0, f, 0), (0, d.b, 0), C, (0, s.imm as u8 as i8, 0)));
binop8!(c01b_arithmetic_mi8, "C01b.arithmetic.mi8", nt_byte_binary_arithmetic, NT_byte_binary_arithmetic_N, NT_byte_binary_arithmetic_TEXT, opnd_mem, src_imm_s8, true, yes,
    |vm: &mut VM, ctx: &mut Context, f, d: &Op, s: &Op| p_binary_arithmetic__byte_binary_arithmetic__T_byte__memory_addr__COMMA__s_byte_num(CUR, vm, ctx, "", (0, f, 0), KB, (0, d.m, 0), C, (0, s.imm as u8 as i8, 0)));
binop8!(c01b_arithmetic_li8, "C01b.arithmetic.li8", nt_byte_binary_arithmetic, NT_byte_binary_arithmetic_N, NT_byte_binary_arithmetic_TEXT, opnd_lab, src_imm_s8, true, yes,
    |vm: &mut VM, ctx: &mut Context, f, d: &Op, s: &Op| p_binary_arithmetic__byte_binary_arithmetic__byte_label__COMMA__s_byte_num(CUR, vm, ctx, "", (0, f, 0), (0, d.m, 0), C, (0, s.imm as u8 as i8, 0)));
binop16!(c01b_arithmetic_rr16, "C01b.arithmetic.rr16", nt_word_binary_arithmetic, NT_word_binary_arithmetic_N, NT_word_binary_arithmetic_TEXT, dst_reg16, src_reg16, true, no,
    |vm: &mut VM, ctx: &mut Context, f, d: &Op, s: &Op| p_binary_arithmetic__word_binary_arithmetic__word_reg__COMMA__word_reg(CUR, vm, ctx, "", (0, f, 0), (0, d.w, 0), C, (0, s.w, 0)));
frame_only!(c01b_arithmetic_rr16_frame, "C01b.arithmetic.rr16", nt_word_binary_arithmetic, NT_word_binary_arithmetic_N, dst_reg16, src_reg16,
    |vm: &mut VM, ctx: &mut Context, f, d: &Op, s: &Op| p_binary_arithmetic__word_binary_arithmetic__word_reg__COMMA__word_reg(CUR, vm, ctx, "", (0, f, 0), (0, d.w, 0), C, (0, s.w, 0)));
binop16!(c01b_arithmetic_rm16, "C01b.arithmetic.rm16", nt_word_binary_arithmetic, NT_word_binary_arithmetic_N, NT_word_binary_arithmetic_TEXT, dst_reg16, opnd_mem, true, yes,
    |vm: &mut VM, ctx: &mut Context, f, d: &Op, s: &Op| p_binary_arithmetic__word_binary_arithmetic__word_reg__COMMA__T_word__memory_addr(CUR, vm, ctx, "", (0, f, 0), (0, d.w, 0), C, KW, (0, s.m, 0)));
binop16!(c01b_arithmetic_rl16, "C01b.arithmetic.rl16", nt_word_binary_arithmetic, NT_word_binary_arithmetic_N, NT_word_binary_arithmetic_TEXT, dst_reg16, opnd_lab, true, yes,
    |vm: &mut VM, ctx: &mut Context, f, d: &Op, s: &Op| p_binary_arithmetic__word_binary_arithmetic__word_reg__COMMA__word_label(CUR, vm, ctx, "", (0, f, 0), (0, d.w, 0), C, (0, s.m, 0)));
binop16!(c01b_arithmetic_mr16, "C01b.arithmetic.mr16", nt_word_binary_arithmetic, NT_word_binary_arithmetic_N, NT_word_binary_arithmetic_TEXT, opnd_mem, src_reg16, true, yes,
    |vm: &mut VM, ctx: &mut Context, f, d: &Op, s: &Op| p_binary_arithmetic__word_binary_arithmetic__T_word__memory_addr__COMMA__word_reg(CUR, vm, ctx, "", (0, f, 0), KW, (0, d.m, 0), C, (0, s.w, 0)));
binop16!(c01b_arithmetic_lr16, "C01b.arithmetic.lr16", nt_word_binary_arithmetic, NT_word_binary_arithmetic_N, NT_word_binary_arithmetic_TEXT, opnd_lab, src_reg16, true, yes,
    |vm: &mut VM, ctx: &mut Context, f, d: &Op, s: &Op| p_binary_arithmetic__word_binary_arithmetic__word_label__COMMA__word_reg(CUR, vm, ctx, "", (0, f, 0), (0, d.m, 0), C, (0, s.w, 0)));
binop16!(c01b_arithmetic_ri16, "C01b.arithmetic.ri16", nt_word_binary_arithmetic, NT_word_binary_arithmetic_N, NT_word_binary_arithmetic_TEXT, dst_reg16, src_imm_s16, true, no,
    |vm: &mut VM, ctx: &mut Context, f, d: &Op, s: &Op| p_binary_arithmetic__word_binary_arithmetic__word_reg__COMMA__s_word_num(CUR, vm, ctx, "", (0, f, 0), (0, d.w, 0), C, (0, s.imm as i16, 0)));
frame_only!(c01b_arithmetic_ri16_frame, "C01b.arithmetic.ri16", nt_word_binary_arithmetic, NT_word_binary_arithmetic_N, dst_reg16, src_imm_s16,
    |vm: &mut VM, ctx: &mut Context, f, d: &Op, s: &Op| p_binary_arithmetic__word_binary_arithmetic__word_reg__COMMA__s_word_num(CUR, vm, ctx, "", (0, f, 0), (0, d.w, 0), C, (0, s.imm as i16, 0)));
binop16!(c01b_arithmetic_mi16, "C01b.arithmetic.mi16", nt_word_binary_arithmetic, NT_word_binary_arithmetic_N, NT_word_binary_arithmetic_TEXT, opnd_mem, src_imm_s16, true, yes,
    |vm: &mut VM, ctx: &mut Context, f, d: &Op, s: &Op| p_binary_arithmetic__word_binary_arithmetic__T_word__memory_addr__COMMA__s_word_num(CUR, vm, ctx, "", (0, f, 0), KW, (0, d.m, 0), C, (0, s.imm as i16, 0)));
binop16!(c01b_arithmetic_li16, "C01b.arithmetic.li16", nt_word_binary_arithmetic, NT_word_binary_arithmetic_N, NT_word_binary_arithmetic_TEXT, opnd_lab, src_imm_s16, true, yes,
    |vm: &mut VM, ctx: &mut Context, f, d: &Op, s: &Op| p_binary_arithmetic__word_binary_arithmetic__word_label__COMMA__s_word_num(CUR, vm, ctx, "", (0, f, 0), (0, d.m, 0), C, (0, s.imm as i16, 0)));

unop!(c01b_unary_r8, "C01b.unary.r8", u8, 8, nt_byte_unary_arithmetic, NT_byte_unary_arithmetic_N, NT_byte_unary_arithmetic_TEXT, NT_byte_unary_arithmetic_ID, dst_reg8,
    |id: u8| id == ID_dec || id == ID_inc || id == ID_neg, no,
    |vm: &mut VM, ctx: &mut Context, f, d: &Op| p_unary_arithmetic__byte_unary_arithmetic__byte_reg(CUR, vm, ctx, "", (0, f, 0), (0, d.b, 0)));
frame_only_un!(c01b_unary_r8_frame, "C01b.unary.r8", nt_byte_unary_arithmetic, NT_byte_unary_arithmetic_N, NT_byte_unary_arithmetic_ID, dst_reg8,
    |id: u8| id == ID_dec || id == ID_inc || id == ID_neg,
    |vm: &mut VM, ctx: &mut Context, f, d: &Op| p_unary_arithmetic__byte_unary_arithmetic__byte_reg(CUR, vm, ctx, "", (0, f, 0), (0, d.b, 0)));
unop!(c01b_unary_m8, "C01b.unary.m8", u8, 8, nt_byte_unary_arithmetic, NT_byte_unary_arithmetic_N, NT_byte_unary_arithmetic_TEXT, NT_byte_unary_arithmetic_ID, opnd_mem,
    |id: u8| id == ID_dec || id == ID_inc || id == ID_neg, yes,
    |vm: &mut VM, ctx: &mut Context, f, d: &Op| p_unary_arithmetic__byte_unary_arithmetic__T_byte__memory_addr(CUR, vm, ctx, "", (0, f, 0), KB, (0, d.m, 0)));
unop!(c01b_unary_l8, "C01b.unary.l8", u8, 8, nt_byte_unary_arithmetic, NT_byte_unary_arithmetic_N, NT_byte_unary_arithmetic_TEXT, NT_byte_unary_arithmetic_ID, opnd_lab,
    |id: u8| id == ID_dec || id == ID_inc || id == ID_neg, yes,
    |vm: &mut VM, ctx: &mut Context, f, d: &Op| p_unary_arithmetic__byte_unary_arithmetic__byte_label(CUR, vm, ctx, "", (0, f, 0), (0, d.m, 0)));
unop!(c01b_unary_r16, "C01b.unary.r16", u16, 16, nt_word_unary_arithmetic, NT_word_unary_arithmetic_N, NT_word_unary_arithmetic_TEXT, NT_word_unary_arithmetic_ID, dst_reg16,
    |id: u8| id == ID_dec || id == ID_inc || id == ID_neg, no,
    |vm: &mut VM, ctx: &mut Context, f, d: &Op| p_unary_arithmetic__word_unary_arithmetic__word_reg(CUR, vm, ctx, "", (0, f, 0), (0, d.w, 0)));
frame_only_un!(c01b_unary_r16_frame, "C01b.unary.r16", nt_word_unary_arithmetic, NT_word_unary_arithmetic_N, NT_word_unary_arithmetic_ID, dst_reg16,
    |id: u8| id == ID_dec || id == ID_inc || id == ID_neg,
    |vm: &mut VM, ctx: &mut Context, f, d: &Op| p_unary_arithmetic__word_unary_arithmetic__word_reg(CUR, vm, ctx, "", (0, f, 0), (0, d.w, 0)));
unop!(c01b_unary_m16, "C01b.unary.m16", u16, 16, nt_word_unary_arithmetic, NT_word_unary_arithmetic_N, NT_word_unary_arithmetic_TEXT, NT_word_unary_arithmetic_ID, opnd_mem,
    |id: u8| id == ID_dec || id == ID_inc || id == ID_neg, yes,
    |vm: &mut VM, ctx: &mut Context, f, d: &Op| p_unary_arithmetic__word_unary_arithmetic__T_word__memory_addr(CUR, vm, ctx, "", (0, f, 0), KW, (0, d.m, 0)));
unop!(c01b_unary_l16, "C01b.unary.l16", u16, 16, nt_word_unary_arithmetic, NT_word_unary_arithmetic_N, NT_word_unary_arithmetic_TEXT, NT_word_unary_arithmetic_ID, opnd_lab,
    |id: u8| id == ID_dec || id == ID_inc || id == ID_neg, yes,
    |vm: &mut VM, ctx: &mut Context, f, d: &Op| p_unary_arithmetic__word_unary_arithmetic__word_label(CUR, vm, ctx, "", (0, f, 0), (0, d.m, 0)));
#[cfg_attr(kani, kani::proof)]
pub fn c01b_twin_reach() {
    let mut vm = mk_vm();
    let mut ctx = mk_ctx();
    let d = opnd_mem(&mut vm, &mut ctx);
    vassert!("C01b.twin.must_fail", d.m != 77);
    done_ctx(ctx);
    done(vm);
}

pub const TABLE: &[(&str, fn())] = &[
    ("c01b_arithmetic_rr8", c01b_arithmetic_rr8),
    ("c01b_arithmetic_rr8_frame", c01b_arithmetic_rr8_frame),
    ("c01b_arithmetic_rm8", c01b_arithmetic_rm8),
    ("c01b_arithmetic_rl8", c01b_arithmetic_rl8),
    ("c01b_arithmetic_mr8", c01b_arithmetic_mr8),
    ("c01b_arithmetic_lr8", c01b_arithmetic_lr8),
    ("c01b_arithmetic_ri8", c01b_arithmetic_ri8),
    ("c01b_arithmetic_ri8_frame", c01b_arithmetic_ri8_frame),
    ("c01b_arithmetic_mi8", c01b_arithmetic_mi8),
    ("c01b_arithmetic_li8", c01b_arithmetic_li8),
    ("c01b_arithmetic_rr16", c01b_arithmetic_rr16),
    ("c01b_arithmetic_rr16_frame", c01b_arithmetic_rr16_frame),
    ("c01b_arithmetic_rm16", c01b_arithmetic_rm16),
    ("c01b_arithmetic_rl16", c01b_arithmetic_rl16),
    ("c01b_arithmetic_mr16", c01b_arithmetic_mr16),
    ("c01b_arithmetic_lr16", c01b_arithmetic_lr16),
    ("c01b_arithmetic_ri16", c01b_arithmetic_ri16),
    ("c01b_arithmetic_ri16_frame", c01b_arithmetic_ri16_frame),
    ("c01b_arithmetic_mi16", c01b_arithmetic_mi16),
    ("c01b_arithmetic_li16", c01b_arithmetic_li16),
    ("c01b_unary_r8", c01b_unary_r8),
    ("c01b_unary_r8_frame", c01b_unary_r8_frame),
    ("c01b_unary_m8", c01b_unary_m8),
    ("c01b_unary_l8", c01b_unary_l8),
    ("c01b_unary_r16", c01b_unary_r16),
    ("c01b_unary_r16_frame", c01b_unary_r16_frame),
    ("c01b_unary_m16", c01b_unary_m16),
    ("c01b_unary_l16", c01b_unary_l16),
    ("c01b_twin_reach", c01b_twin_reach),
];
