// C11 / C10 (model validation): the interpreter's numeric leaves accept exactly the decimal texts
// whose value fits their Rust type and yield that value -- this is the numeric-leaf model the grammar
// engine (E2) uses for downstream acceptance and constant preservation.
use crate::{vassert, vassume, vcover, vsym};

fn dec_token(neg: bool, n: usize) -> ([u8; 12], usize, i64) {
    vsym!(w_d0: u8); vsym!(w_d1: u8); vsym!(w_d2: u8); vsym!(w_d3: u8); vsym!(w_d4: u8); vsym!(w_d5: u8); vsym!(w_d6: u8);
    vsym!(w_d7: u8); vsym!(w_d8: u8); vsym!(w_d9: u8);
    let raw = [w_d0, w_d1, w_d2, w_d3, w_d4, w_d5, w_d6, w_d7, w_d8, w_d9];
    let mut buf = [b'0'; 12];
    let mut len = 0;
    if neg {
        buf[0] = b'-';
        len = 1;
    }
    let mut val: i64 = 0;
    let mut i = 0;
    while i < n {
        let c = b'0' + raw[i] % 10;
        buf[len] = c;
        len += 1;
        val = val * 10 + (c - b'0') as i64;
        i += 1;
    }
    (buf, len, if neg { -val } else { val })
}

macro_rules! ileaf {
    ($h:ident, $name:expr, $neg:expr, $n:expr, $lo:expr, $hi:expr, $post:expr, $call:expr) => {
        #[cfg_attr(kani, kani::proof)]
        #[cfg_attr(kani, kani::unwind(14))]
        #[cfg_attr(kani, kani::stub(alloc::fmt::format, crate::verif_rt::fmt_stub))]
        pub fn $h() {
            let mut vm = mk_vm();
            let mut ctx = mk_ctx();
            let (buf, len, val) = dec_token($neg, $n);
            let text: &str = unsafe { std::str::from_utf8_unchecked(&buf[..len]) };
            let r = ($call)(&mut vm, &mut ctx, text);
            let fits = val >= $lo as i64 && val <= $hi as i64;
            match &r {
                Ok(v) => {
                    vassert!(concat!("C11.leaf.", $name, ".value"), fits && (*v as i64) == ($post)(val));
                }
                Err(_) => {
                    vassert!(concat!("C11.leaf.", $name, ".rejected_only_when_out_of_range"), !fits);
                }
            }
            std::mem::forget(r);
            done_ctx(ctx);
            done(vm);
        }
    };
}

ileaf!(c11n_i_u_byte, "interp.u_byte_num", false, 3, 0, 255, |v: i64| v, |vm: &mut VM, c: &mut Context, t| p_u_byte_num__RE_NUM(CUR, vm, c, "", (0, t, 0)));
ileaf!(c11n_i_u_byte4, "interp.u_byte_num", false, 4, 0, 255, |v: i64| v, |vm: &mut VM, c: &mut Context, t| p_u_byte_num__RE_NUM(CUR, vm, c, "", (0, t, 0)));
ileaf!(c11n_i_u_word, "interp.u_word_num", false, 5, 0, 65535, |v: i64| v, |vm: &mut VM, c: &mut Context, t| p_u_word_num__RE_NUM(CUR, vm, c, "", (0, t, 0)));
ileaf!(c11n_i_u_word6, "interp.u_word_num", false, 6, 0, 65535, |v: i64| v, |vm: &mut VM, c: &mut Context, t| p_u_word_num__RE_NUM(CUR, vm, c, "", (0, t, 0)));
ileaf!(c11n_i_s_byte, "interp.s_byte_num", true, 3, -128, 0, |v: i64| v, |vm: &mut VM, c: &mut Context, t| p_s_byte_num__RE_NEG(CUR, vm, c, "", (0, t, 0)));
ileaf!(c11n_i_s_word, "interp.s_word_num", true, 5, -32768, 0, |v: i64| v, |vm: &mut VM, c: &mut Context, t| p_s_word_num__RE_NEG(CUR, vm, c, "", (0, t, 0)));
ileaf!(c11n_i_raw_addr, "interp.raw_addr", false, 10, 0, 4294967295u32, |v: i64| v % 1048576, |vm: &mut VM, c: &mut Context, t| p_raw_addr__RE_NUM(CUR, vm, c, "", (0, t, 0)));

pub const TABLE: &[(&str, fn())] = &[
    ("c11n_i_u_byte", c11n_i_u_byte), ("c11n_i_u_byte4", c11n_i_u_byte4), ("c11n_i_u_word", c11n_i_u_word), ("c11n_i_u_word6", c11n_i_u_word6),
    ("c11n_i_s_byte", c11n_i_s_byte), ("c11n_i_s_word", c11n_i_s_word), ("c11n_i_raw_addr", c11n_i_raw_addr),
];
