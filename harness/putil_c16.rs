// C16 (source map): SourceMapper::{add_entry, set_source, lock_source, unlock_source} -- the entry
// of output line i is the argument of its own add_entry while unlocked, and the position given to the
// outermost set_source while locked (macro expansion), for every sequence of <= 5 operations.
use crate::{vassert, vassume, vcover, vsym};

#[cfg_attr(kani, kani::proof)]
#[cfg_attr(kani, kani::unwind(8))]
pub fn c16_source_mapper() {
    let mut sm = SourceMapper::new();
    #[cfg(kani)]
    sm.source_map.items.reserve(8);
    vsym!(w_ops: u16);
    vsym!(w_x0: u16);
    vsym!(w_x1: u16);
    vsym!(w_x2: u16);
    vsym!(w_x3: u16);
    vsym!(w_x4: u16);
    let xs = [w_x0 as usize, w_x1 as usize, w_x2 as usize, w_x3 as usize, w_x4 as usize];
    // reference model
    let mut lock: u16 = 0;
    let mut last: usize = 0;
    let mut expect = [0usize; 5];
    let mut n = 0usize;
    let mut k = 0;
    while k < 5 {
        let op = (w_ops >> (2 * k)) & 3;
        match op {
            0 => {
                sm.add_entry(xs[k]);
                if lock == 0 {
                    last = xs[k];
                }
                expect[n] = last;
                n += 1;
            }
            1 => {
                sm.set_source(xs[k]);
                if lock == 0 {
                    last = xs[k];
                }
            }
            2 => {
                sm.lock_source();
                lock += 1;
            }
            _ => {
                if lock > 0 {
                    sm.unlock_source();
                    lock -= 1;
                }
            }
        }
        k += 1;
    }
    let map = sm.get_source_map();
    vsym!(w_i: usize);
    if w_i < n {
        vassert!("C16.mapper.entry_of_line_i", map.get(&w_i) == Some(&expect[w_i]));
    }
    vassert!("C16.mapper.one_entry_per_line", map.len() == n);
    vcover!("C16.mapper.cover.locked_entry", n >= 2 && lock >= 1);
    std::mem::forget(map);
}

pub const TABLE: &[(&str, fn())] = &[("c16_source_mapper", c16_source_mapper)];
