// C16 (source map): SourceMapper::{add_entry, set_source, lock_source, unlock_source} -- the entry
// of output line i is the argument of its own add_entry while unlocked, and the position given to the
// outermost set_source while locked (macro expansion), for every sequence of <= 5 operations.
use crate::{vassert, vassume, vcover, vsym};

/// op codes: 0 add_entry(x), 1 set_source(x), 2 lock_source, 3 unlock_source.  The operation kinds are
/// concrete per instance (a symbolic kind per step does not finish: > 4 min in propositional
/// reduction), the positions are symbolic.
fn run_sequence(ops: [u8; 6]) {
    let mut sm = SourceMapper::new();
    #[cfg(kani)]
    sm.source_map.items.reserve(8);
    vsym!(w_x0: u16);
    vsym!(w_x1: u16);
    vsym!(w_x2: u16);
    vsym!(w_x3: u16);
    vsym!(w_x4: u16);
    vsym!(w_x5: u16);
    let xs = [w_x0 as usize, w_x1 as usize, w_x2 as usize, w_x3 as usize, w_x4 as usize, w_x5 as usize];
    let mut lock: u16 = 0;
    let mut last: usize = 0;
    let mut expect = [0usize; 6];
    let mut n = 0usize;
    let mut k = 0;
    while k < 6 {
        match ops[k] {
            0 => {
                sm.add_entry(xs[k]);
                if lock == 0 {
                    last = xs[k];
                }
                expect[n] = last;
                n += 1;
            }
            1 => {
                sm.set_source(xs[k]);
                if lock == 0 {
                    last = xs[k];
                }
            }
            2 => {
                sm.lock_source();
                lock += 1;
            }
            _ => {
                sm.unlock_source();
                lock -= 1;
            }
        }
        k += 1;
    }
    let map = sm.get_source_map();
    let mut ok = map.len() == n;
    let mut i = 0;
    while i < n {
        if map.get(&i) != Some(&expect[i]) {
            ok = false;
        }
        i += 1;
    }
    vassert!("C16.mapper.every_line_has_its_own_position", ok);
    std::mem::forget(map);
}

macro_rules! seqh {
    ($h:ident, $ops:expr) => {
        #[cfg_attr(kani, kani::proof)]
        #[cfg_attr(kani, kani::unwind(9))]
        pub fn $h() {
            run_sequence($ops);
        }
    };
}
// plain instructions
seqh!(c16_mapper_plain, [0, 0, 0, 0, 0, 0]);
// a macro use: set_source(use site); lock; <instructions of the expansion>; unlock; next instruction
seqh!(c16_mapper_macro, [0, 1, 2, 0, 0, 3]);
seqh!(c16_mapper_macro_then_plain, [1, 2, 0, 3, 0, 0]);
// nested macro use: the outermost use site wins
seqh!(c16_mapper_nested, [1, 2, 1, 2, 0, 3]);
seqh!(c16_mapper_nested_close, [2, 2, 0, 3, 3, 0]);

pub const TABLE: &[(&str, fn())] = &[
    ("c16_mapper_plain", c16_mapper_plain),
    ("c16_mapper_macro", c16_mapper_macro),
    ("c16_mapper_macro_then_plain", c16_mapper_macro_then_plain),
    ("c16_mapper_nested", c16_mapper_nested),
    ("c16_mapper_nested_close", c16_mapper_nested_close),
];
