// C04: accesses AT the resolved address (byte, and word = low byte at m, high byte at m+1 mod 2^20).
use crate::{vassert, vassume, vcell, vcover, vsym};

movop!(c04w_mov_rm8, "C04.access.rm8", 8, dst_reg8, opnd_mem, yes,
    |vm: &mut VM, ctx: &mut Context, d: &Op, s: &Op| p_mov__T_mov__byte_reg__COMMA__T_byte__memory_addr(CUR, vm, ctx, "", (0, "mov", 0), (0, d.b, 0), C, KB, (0, s.m, 0)));
movop!(c04w_mov_rm16, "C04.access.rm16", 16, dst_reg16, opnd_mem, yes,
    |vm: &mut VM, ctx: &mut Context, d: &Op, s: &Op| p_mov__T_mov__word_reg__COMMA__T_word__memory_addr(CUR, vm, ctx, "", (0, "mov", 0), (0, d.w, 0), C, KW, (0, s.m, 0)));
movop!(c04w_mov_rl16, "C04.access.rl16", 16, dst_reg16, opnd_lab, yes,
    |vm: &mut VM, ctx: &mut Context, d: &Op, s: &Op| p_mov__T_mov__word_reg__COMMA__word_label(CUR, vm, ctx, "", (0, "mov", 0), (0, d.w, 0), C, (0, s.m, 0)));
movop!(c04w_mov_mr8, "C04.access.mr8", 8, opnd_mem, src_reg8, yes,
    |vm: &mut VM, ctx: &mut Context, d: &Op, s: &Op| p_mov__T_mov__T_byte__memory_addr__COMMA__byte_reg(CUR, vm, ctx, "", (0, "mov", 0), KB, (0, d.m, 0), C, (0, s.b, 0)));
movop!(c04w_mov_mr16, "C04.access.mr16", 16, opnd_mem, src_reg16, yes,
    |vm: &mut VM, ctx: &mut Context, d: &Op, s: &Op| p_mov__T_mov__T_word__memory_addr__COMMA__word_reg(CUR, vm, ctx, "", (0, "mov", 0), KW, (0, d.m, 0), C, (0, s.w, 0)));
movop!(c04w_mov_lr16, "C04.access.lr16", 16, opnd_lab, src_reg16, yes,
    |vm: &mut VM, ctx: &mut Context, d: &Op, s: &Op| p_mov__T_mov__word_label__COMMA__word_reg(CUR, vm, ctx, "", (0, "mov", 0), (0, d.m, 0), C, (0, s.w, 0)));

pub const TABLE: &[(&str, fn())] = &[
    ("c04w_mov_rm8", c04w_mov_rm8),
    ("c04w_mov_rm16", c04w_mov_rm16),
    ("c04w_mov_rl16", c04w_mov_rl16),
    ("c04w_mov_mr8", c04w_mov_mr8),
    ("c04w_mov_mr16", c04w_mov_mr16),
    ("c04w_mov_lr16", c04w_mov_lr16),
];
