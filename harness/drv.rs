// verif_drv (binary crate, scratch copy only): the ENVIRONMENT of CMDDriver::run() and user_interface().
//
// lib/gen.py makes a copy of src/driver/driver.rs and src/driver/user_interface.rs in which only the
// `use` lines (and the textual std::io / std::process calls) are changed so that the names below are
// found instead of the real regex engine, LALRPOP parsers, console and machine constructor.  The function
// BODIES are the repository's text, compiled by Kani.  Every stub logs its call (verif_io::log_marker) and
// answers from a scenario / script that the harness fills with symbolic values, constrained only by the
// contract of the real component (stated next to each stub; each contract is an obligation of another check).
#![allow(dead_code, static_mut_refs, non_snake_case, unused_variables)]
use super::verif_io as io;
use emulator_8086_lib as lib;
use lib::verif_rt::{regs, Regs};
use lib::{InterpreterContext, Label, LabelType, PreprocessorContext, PreprocessorOutput, State};

pub const KMAX: usize = 8;
pub const EPMAX: usize = 10;
/// the text after comment removal: 16 ASCII characters (its content is never the subject)
pub const TEXT: &str = "0123456789abcdef";

// event kinds of verif_io::log_marker
pub const EV_INTERP: u8 = 10;
pub const EV_UI: u8 = 11;
pub const EV_ERRPOS: u8 = 12;
pub const EV_DATA: u8 = 13;
pub const EV_PRINTER: u8 = 14;
pub const EV_INT13: u8 = 15;
pub const EV_INT21: u8 = 16;
pub const EV_PREPROCESS: u8 = 17;
pub const EV_STDIN: u8 = 18;
pub const EV_EXIT: u8 = 19;

#[derive(Clone, Copy)]
pub struct Scenario {
    /// source position recorded for instruction i
    pub pos: [usize; 4],
    /// index the label `start` maps to (<= n)
    pub start_map: usize,
    pub undef_pos: usize,
    /// what get_err_pos answers on its c-th call
    pub ep_line: [usize; EPMAX],
    pub ep_start: [usize; EPMAX],
    pub ep_end: [usize; EPMAX],
    /// interpreter script: result of the k-th executed instruction and the machine it leaves
    pub kind: [u8; KMAX],
    pub tgt: [usize; KMAX],
    pub int: [u8; KMAX],
    pub flag: [u16; KMAX],
    pub ax: [u16; KMAX],
    /// result of the j-th data line / print line: true = accepted
    pub data_ok: [bool; 2],
    pub data_size: [usize; 2],
    pub print_ok: bool,
}

pub const SC0: Scenario = Scenario {
    pos: [0; 4],
    start_map: 0,
    undef_pos: 0,
    ep_line: [0; EPMAX],
    ep_start: [0; EPMAX],
    ep_end: [0; EPMAX],
    kind: [0; KMAX],
    tgt: [0; KMAX],
    int: [0; KMAX],
    flag: [0; KMAX],
    ax: [0; KMAX],
    data_ok: [true; 2],
    data_size: [0; 2],
    print_ok: true,
};

pub static mut SC: Scenario = SC0;
// the SHAPE of the scenario is kept in scalar statics of its own and is concrete in every harness: a struct
// that mixes concrete and symbolic fields loses its constants when it is copied (CBMC then unrolls every
// loop over a Vec of the scenario to the unwinding bound)
/// number of instructions the assembler emitted (0..=4) and of data lines (0..=2)
pub static mut N: usize = 0;
pub static mut D: usize = 0;
/// label `start`: 0 absent, 1 code label, 2 data label
pub static mut START_KIND: u8 = 0;
/// 0: no forward reference recorded, 1: one recorded and never defined, 2: one recorded and defined later,
/// 3 / 4: two recorded, the first / second of them never defined
pub static mut UNDEF: u8 = 0;
/// number of scripted instruction results; afterwards the interpreter halts
/// the assembler refuses the program
pub static mut PRE_ERR: bool = false;
pub static mut LEN: usize = 0;
/// the last instruction the assembler emitted is the text "hlt" (a program that ends with its own hlt)
pub static mut LAST_IS_HLT: bool = false;
pub fn set_last_is_hlt(b: bool) {
    unsafe { LAST_IS_HLT = b };
}
/// result kind / interrupt number of the FIRST executed instruction when the harness fixes them (255 = not fixed)
pub static mut FIX_KIND: u8 = 255;
pub static mut FIX_INT: u8 = 0;
pub fn fix_first(kind: u8, int: u8) {
    unsafe {
        FIX_KIND = kind;
        FIX_INT = int;
    }
}
pub fn set_shape(n: usize, d: usize, start_kind: u8, undef: u8, len: usize, pre_err: bool) {
    unsafe {
        PRE_ERR = pre_err;
        N = n;
        D = d;
        START_KIND = start_kind;
        UNDEF = undef;
        LEN = len;
    }
}
pub static mut CALLS: usize = 0; // interpreter calls so far
pub static mut EP_CALLS: usize = 0;
pub static mut DATA_CALLS: usize = 0;
pub static mut LAST: Option<Regs> = None;
pub static mut VM_TOUCHED: bool = false;
pub static mut EXITED: bool = false;

pub fn reset(sc: Scenario) {
    unsafe {
        SC = sc;
        CALLS = 0;
        EP_CALLS = 0;
        DATA_CALLS = 0;
        LAST = None;
        FIX_KIND = 255;
        LAST_IS_HLT = false;
        VM_TOUCHED = false;
        EXITED = false;
    }
    io::log_reset();
}
pub fn vm_touched() -> bool {
    unsafe { VM_TOUCHED }
}
pub fn exited() -> bool {
    unsafe { EXITED }
}

/// length of the text of instruction i as the stubs see it (4 + i; the appended "hlt" has 3)
pub fn code_len(i: usize) -> usize {
    if unsafe { LAST_IS_HLT } && i + 1 == unsafe { N } {
        3
    } else {
        4 + i
    }
}
const CODE_TEXT: [&str; 4] = ["aaaa", "bbbbb", "cccccc", "ddddddd"];
const DATA_TEXT: [&str; 2] = ["DDDDDDDD", "EEEEEEEEE"];
pub fn data_len(j: usize) -> usize {
    8 + j
}

// ------------------------------------------------------------------ regex (comment removal)
pub struct Regex;
pub struct Replaced;
impl Regex {
    pub fn new(_pattern: &str) -> Result<Regex, ()> {
        Ok(Regex)
    }
    pub fn replace_all(&self, _text: &str, _rep: &str) -> Replaced {
        Replaced
    }
}
impl Replaced {
    pub fn to_string(&self) -> String {
        TEXT.to_owned()
    }
}

// ------------------------------------------------------------------ the assembler
pub struct Lh;
pub struct StubErr;
impl io::ToLog for StubErr {
    fn to_log(&self) -> u64 {
        0
    }
}

/// contract of the real assembler (C08 / C14 / C16 obligations): instruction i has a source-map entry;
/// label and procedure indices are <= the number of emitted instructions; forward references are recorded
pub fn preprocess(_input: &str) -> Result<(Lh, PreprocessorContext, PreprocessorOutput), String> {
    let sc = unsafe { &SC };
    let (n, d, start_kind, undef) = unsafe { (N, D, START_KIND, UNDEF) };
    io::log_marker(EV_PREPROCESS, &[]);
    if unsafe { PRE_ERR } {
        return Err(String::new());
    }
    let mut ctx = PreprocessorContext::default();
    let mut out = PreprocessorOutput::default();
    let mut i = 0;
    while i < n {
        let last_hlt = unsafe { LAST_IS_HLT } && i + 1 == n;
        out.code.push(if last_hlt { "hlt".to_owned() } else { CODE_TEXT[i].to_owned() });
        ctx.mapper.add_entry(sc.pos[i]);
        i += 1;
    }
    let mut j = 0;
    while j < d {
        out.data.push(DATA_TEXT[j].to_owned());
        j += 1;
    }
    if start_kind == 1 {
        ctx.label_map.insert("start".to_owned(), Label::new(LabelType::CODE, 0, sc.start_map));
    } else if start_kind == 2 {
        ctx.label_map.insert("start".to_owned(), Label::new(LabelType::DATA, 0, sc.start_map));
    }
    // 1: one forward reference, never defined; 2: one, defined later; 3: two, the FIRST recorded is never
    // defined; 4: two, the SECOND recorded is never defined
    if undef == 4 {
        ctx.undefined_labels.insert((sc.undef_pos + 1, "v".to_owned()));
        ctx.label_map.insert("v".to_owned(), Label::new(LabelType::CODE, 0, 0));
    }
    if undef != 0 {
        ctx.undefined_labels.insert((sc.undef_pos, "u".to_owned()));
        if undef == 2 {
            ctx.label_map.insert("u".to_owned(), Label::new(LabelType::CODE, 0, 0));
        }
    }
    if undef == 3 {
        ctx.undefined_labels.insert((sc.undef_pos + 1, "v".to_owned()));
        ctx.label_map.insert("v".to_owned(), Label::new(LabelType::CODE, 0, 0));
    }
    Ok((Lh, ctx, out))
}

/// contract (C16's own harness): (number, start, end) of the line containing `pos`; here: arbitrary values
/// with start <= end <= length of the text, chosen by the harness per call
pub fn get_err_pos(_l: &Lh, pos: usize) -> (usize, usize, usize) {
    let c = unsafe { EP_CALLS };
    unsafe { EP_CALLS += 1 };
    io::log_marker(EV_ERRPOS, &[pos as u64, c as u64]);
    let sc = unsafe { &SC };
    let k = if c < EPMAX { c } else { EPMAX - 1 };
    (sc.ep_line[k], sc.ep_start[k], sc.ep_end[k])
}

// ------------------------------------------------------------------ the machine and the three run-time parsers
pub struct VM;
impl VM {
    /// C19 decides what VM::new() yields (all registers 0 except FLAGS = F000h, CS = FFFFh, memory zero);
    /// here the registers are those and the memory is left arbitrary (the run loop never reads it)
    pub fn new() -> lib::VM {
        let mut vm = lib::verif_rt::mk_vm();
        let mut r = regs(&vm);
        r = Regs { flag: 0xF000, ax: 0, bx: 0, cx: 0, dx: 0, sp: 0, bp: 0, si: 0, di: 0, ip: 0, cs: 0xFFFF, ds: 0, ss: 0, es: 0 };
        lib::verif_rt::set_regs(&mut vm, &r);
        vm
    }
}

pub struct DataParser;
impl DataParser {
    pub fn new() -> Self {
        DataParser
    }
    /// contract (C12): writes memory only, advances the counter by the size of the definition
    pub fn parse(&self, vm: &mut lib::VM, ctr: &mut usize, line: &str) -> Result<(), StubErr> {
        let j = unsafe { DATA_CALLS };
        unsafe { DATA_CALLS += 1 };
        io::log_marker(EV_DATA, &[line.len() as u64, *ctr as u64, vm.arch.ds as u64]);
        let sc = unsafe { &SC };
        let jj = if j < 2 { j } else { 1 };
        if !sc.data_ok[jj] {
            return Err(StubErr);
        }
        *ctr += sc.data_size[jj];
        Ok(())
    }
}

pub struct Interpreter;
impl Interpreter {
    pub fn new() -> Self {
        Interpreter
    }
    /// contract: the appended "hlt" halts (interpreter grammar); a jump target is a recorded label /
    /// procedure index or a pushed return index, hence <= n (C06 / C08 bookkeeping obligations);
    /// the machine after the instruction is arbitrary (flags included: TF may be set by POPF)
    pub fn parse(&self, idx: usize, vm: &mut lib::VM, _ctx: &mut InterpreterContext, line: &str) -> Result<State, StubErr> {
        let sc = unsafe { &SC };
        let k = unsafe { CALLS };
        unsafe { CALLS += 1 };
        let now = regs(vm);
        if let Some(l) = unsafe { LAST } {
            if l != now {
                unsafe { VM_TOUCHED = true };
            }
        }
        io::log_marker(EV_INTERP, &[idx as u64, line.len() as u64, now.ds as u64]);
        if idx >= unsafe { N } || k >= unsafe { LEN } || k >= KMAX {
            unsafe { LAST = Some(now) };
            return Ok(State::HALT);
        }
        vm.arch.flag = sc.flag[k];
        vm.arch.ax = sc.ax[k];
        unsafe { LAST = Some(regs(vm)) };
        let fixed = k == 0 && unsafe { FIX_KIND } != 255;
        let kind = if fixed { unsafe { FIX_KIND } } else { sc.kind[k] };
        let intno = if fixed { unsafe { FIX_INT } } else { sc.int[k] };
        match kind {
            0 => Ok(State::HALT),
            1 => Ok(State::PRINT),
            2 => Ok(State::JMP(sc.tgt[k])),
            3 => Ok(State::NEXT),
            4 => Ok(State::INT(intno)),
            5 => Ok(State::REPEAT),
            _ => Err(StubErr),
        }
    }
}

pub struct PrintParser;
impl PrintParser {
    pub fn new() -> Self {
        PrintParser
    }
    /// contract (C17): the machine is only read
    pub fn parse(&self, _vm: &lib::VM, line: &str) -> Result<(), StubErr> {
        io::log_marker(EV_PRINTER, &[line.len() as u64, if line.len() > 0 { line.as_bytes()[0] as u64 } else { 0 }]);
        if unsafe { SC.print_ok } {
            Ok(())
        } else {
            Err(StubErr)
        }
    }
}

pub fn user_interface(_vm: &lib::VM, _printer: &PrintParser) {
    io::log_marker(EV_UI, &[]);
}
pub fn int_13(_vm: &lib::VM, ah: u8) {
    io::log_marker(EV_INT13, &[ah as u64]);
}
/// contract (C18): AH = 1 changes AL, AH = 0Ah changes memory; modelled as no register change
pub fn int_21(_vm: &mut lib::VM, ah: u8) {
    io::log_marker(EV_INT21, &[ah as u64]);
}

// ------------------------------------------------------------------ console / process boundary of user_interface
pub fn flush_stub() -> std::io::Result<()> {
    Ok(())
}
/// `std::process::exit(c)` is rewritten to `return exit_stub(c)`: the process ends = the function is left
pub fn exit_stub(code: i32) {
    unsafe { EXITED = true };
    io::log_marker(EV_EXIT, &[code as u64]);
}
