#!/bin/bash
# run once after a fresh restore, offline: warms the dependency build caches used by the checks
cd "$(dirname "$0")"
export CARGO_NET_OFFLINE=true
python3-vt - <<'PY'
import sys
sys.path.insert(0, 'lib')
import pipeline
try:
    print('prepared', pipeline.prepare())
except Exception as e:
    print('setup: prepare failed:', e)
    sys.exit(1)
PY
