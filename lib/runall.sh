#!/bin/bash
# runs every claimed check (quick tier) against /repo and prints a summary; evidence is rewritten
cd "$(dirname "$0")/.."
for id in $(python3 -c "import json;print(' '.join(c['property_id'] for c in json.load(open('MANIFEST.json'))['checks']))"); do
  s=$(date +%s)
  out=$(./check $id --tier ${1:-quick} 2>&1); rc=$?
  echo "$id exit=$rc $(( $(date +%s) - s ))s $(echo "$out" | grep '^property=' | tail -1)"
  echo "$out" | grep -E '^(VIOLATION|INCONCLUSIVE)' | head -5
done
