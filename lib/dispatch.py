import os, sys
sys.path.insert(0, os.path.dirname(os.path.abspath(__file__)))
import checker
if __name__ == '__main__':
    sys.exit(checker.main(sys.argv[1:]))
