"""developer helper: build a scratch copy and Kani-codegen only the harnesses matching a pattern
usage: python3-vt lib/devkani.py <harness-substring> [<harness-substring> ...]   -> gotos in /var/tmp/dev-goto"""
import sys, os, shutil, glob, json
sys.path.insert(0, os.path.dirname(os.path.abspath(__file__)))
import pipeline as P, gen
tree = '/var/tmp/dev-tree/tree'
shutil.rmtree('/var/tmp/dev-tree', ignore_errors=True)
os.makedirs('/var/tmp/dev-tree')
P.sh(['rsync', '-a', '--no-times', '--exclude', 'target', '--exclude', '.git', P.REPO + '/', tree + '/'])
P.sh(['cargo', 'build', '--offline', '--target-dir', os.path.join(P.CACHE, 'target-native')], cwd=tree)
kf = sorted(k['id'] for k in P.load_kf() if k.get('status', 'open') == 'open')
gen.attach(tree, kf)
kdir = os.path.join(P.CACHE, 'target-kani-dev')
cmd = ['cargo', 'kani', '--only-codegen', '-Z', 'stubbing', '--target-dir', kdir]
for h in sys.argv[1:]:
    cmd += ['--harness', h]
p = P.sh(cmd, cwd=tree, check=False)
if p.returncode != 0:
    print(P._errors(p.stdout)); sys.exit(1)
out = '/var/tmp/dev-goto'
shutil.rmtree(out, ignore_errors=True); os.makedirs(out + '/goto')
hs = {}
for m in set(glob.glob(os.path.join(kdir, 'kani', '**', '*.kani-metadata.json'), recursive=True)):
    md = json.load(open(m))
    for h in md.get('proof_harnesses', []):
        short = h['pretty_name'].rsplit('::', 1)[-1]
        if not any(a in short for a in sys.argv[1:]) or not os.path.exists(h['goto_file']):
            continue
        dst = os.path.join(out, 'goto', short + '.symtab.out')
        shutil.copy(h['goto_file'], dst)
        hs[short] = {'mangled': h['mangled_name'], 'goto': dst, 'unwind': h['attributes'].get('unwind_value')}
for n, h in hs.items():
    print(n, P.link_harness(out, n, h), h['unwind'])
