"""Per-property check driver for the E1 (kani-cbmc) engine."""
import json
import os
import re
import sys
import time
from concurrent.futures import ThreadPoolExecutor

sys.path.insert(0, os.path.dirname(os.path.abspath(__file__)))
import pipeline as P  # noqa: E402
import props  # noqa: E402

VERIF = P.VERIF
EVDIR = os.environ.get('VERIF_EVIDENCE_DIR', os.path.join(VERIF, 'evidence'))


def select_harnesses(all_h, prop, tier, extra=None):
    pid = prop.lower()
    out = []
    for name in sorted(all_h):
        if extra and re.search(extra, name):
            out.append(name)
            continue
        m = re.match(r'^(c\d\d)[a-z]?_', name)
        if not m or m.group(1) != pid:
            continue
        if name.endswith('__t') and tier != 'thorough':
            continue
        if name.endswith('__q') and tier != 'quick':
            continue
        out.append(name)
    return out


GLOBAL_BACKENDS = [(r'^c\d\d_run_|^c\d\d_twin_run_', ['sat', 'z3']),
                   (r'^c04_labels$|^c04_lea_label$', ['sat', 'z3']), (r'^c04_memory_addr$', [('z3', 'cvc5'), 'sat-arrays'])]


def backend_chain(name, cfg, tier):
    for pat, chain in GLOBAL_BACKENDS:
        if re.search(pat, name):
            return chain
    for pat, chain in cfg.get('backends', []):
        if re.search(pat, name):
            return chain
    return cfg.get('default_backends', [('z3', 'cvc5'), 'sat-arrays'])


def run_one(cdir, name, h, cfg, tier):
    t0 = time.time()
    try:
        goto = P.link_harness(cdir, name, h)
    except Exception as e:
        return {'name': name, 'status': 'error', 'error': 'link: %s' % e, 'runs': [], 'time': time.time() - t0}
    chain = backend_chain(name, cfg, tier)
    tmo = cfg.get('timeout', {}).get(tier, 480 if tier == 'quick' else 1800)
    runs = []
    final = None
    for be in chain:
        if isinstance(be, (list, tuple)):
            # race: the first back end to return a verdict wins, the others are killed
            r = P.race_cbmc(goto, list(be), h.get('unwind'), tmo)
            for rr in r['all']:
                runs.append({'backend': rr['backend'], 'status': rr['status'], 'time': round(rr['time'], 2), 'role': 'race'})
            if r['winner'] is not None:
                final = r['winner']
                break
            continue
        r = P.run_cbmc(goto, be, h.get('unwind'), tmo)
        runs.append({'backend': be, 'status': r['status'], 'time': round(r['time'], 2)})
        if r['status'] == 'done':
            final = r
            break
        else:
            tail = r.get('out', '')[-400:].replace('\n', ' | ')
            runs[-1]['tail'] = tail
    res = {'name': name, 'runs': runs, 'goto': goto, 'unwind': h.get('unwind')}
    if final is None:
        res['status'] = 'error'
        res['error'] = 'no back end produced a verdict: %s' % runs
    else:
        res['status'] = 'done'
        res['backend'] = final['backend']
        res['parsed'] = P.parse_cbmc(final['out'])
        res['solver_time'] = final['time']
        if tier == 'thorough' and cfg.get('second_backend', True):
            # a second back end must agree on every obligation
            others = [b for b in ('z3', 'cvc5', 'sat-arrays') if b != final['backend']]
            for be in others[:1]:
                r2 = P.run_cbmc(goto, be, h.get('unwind'), tmo)
                runs.append({'backend': be, 'status': r2['status'], 'time': round(r2['time'], 2), 'role': 'second'})
                if r2['status'] == 'done':
                    p2 = P.parse_cbmc(r2['out'])
                    dis = []
                    for lab, o in res['parsed']['obligations'].items():
                        o2 = p2['obligations'].get(lab)
                        if o2 is None or o2['verdict'] != o['verdict']:
                            dis.append(lab)
                    res['second_backend'] = {'backend': be, 'disagreements': dis}
    res['time'] = time.time() - t0
    return res


def replay_violation(cdir, res, h, label, pid, tier):
    """solver counterexample -> witness -> native run on the real code."""
    wit, r = P.trace_witness(res['goto'], res['backend'], res.get('unwind'), pid, 600)
    if wit is None:
        return {'reproduced': False, 'why': 'no trace (%s)' % r['status'], 'witness': {}}
    attempts = []
    for bg in (2, 3, 0, 1, 4):
        w = dict(wit)
        w['bg'] = bg
        rr = P.replay_run(cdir, res['name'], w)
        if rr is None:
            return {'reproduced': False, 'why': 'no replay binary', 'witness': wit}
        attempts.append({'bg': bg, 'fails': rr['fails'], 'panic': rr['panic'], 'assume': rr['assume']})
        if rr['fails'] or rr['panic']:
            rel = None
            if os.path.exists(os.path.join(cdir, 'replay-release')):
                r2 = P.replay_run(cdir, res['name'], w, profile='release')
                rel = {'fails': r2['fails'], 'panic': r2['panic']} if r2 else None
            return {'reproduced': True, 'witness': w, 'native': rr, 'release': rel, 'attempts': attempts}
    # the printed trace may omit inputs that matter: complete the partial witness natively
    w2 = P.complete_witness(cdir, res['name'], wit, label)
    if w2 is not None:
        rr = P.replay_run(cdir, res['name'], w2)
        if rr and (label in rr['fails'] or rr['panic']):
            rel = None
            if os.path.exists(os.path.join(cdir, 'replay-release')):
                r2 = P.replay_run(cdir, res['name'], w2, profile='release')
                rel = {'fails': r2['fails'], 'panic': r2['panic']} if r2 else None
            return {'reproduced': True, 'witness': w2, 'native': rr, 'release': rel, 'attempts': attempts,
                    'witness_source': 'solver verdict "violated"; its printed trace omitted inputs, completed by native search with the printed part pinned'}
    return {'reproduced': False, 'why': 'native run does not fail', 'witness': wit, 'attempts': attempts}


def main(argv):
    import argparse
    ap = argparse.ArgumentParser()
    ap.add_argument('prop')
    ap.add_argument('--tier', default=os.environ.get('VERIF_TIER', 'quick'))
    ap.add_argument('--replay', default=None)
    ap.add_argument('--only', default=None, help='regex on harness names (debugging)')
    ap.add_argument('--keep-going', action='store_true')
    a = ap.parse_args(argv)
    prop = a.prop.upper()
    tier = a.tier if a.tier in ('quick', 'thorough') else 'quick'
    seed = int(os.environ.get('VERIF_SEED', '0') or 0)
    cfg = props.PROPS.get(prop)
    if cfg is None:
        print('unknown property', prop)
        return 2
    t0 = time.time()
    try:
        cdir = P.prepare()
    except P.BuildError as e:
        print('INCONCLUSIVE property=%s reason=build: %s' % (prop, str(e)[:3000]))
        return 2
    all_h = json.load(open(os.path.join(cdir, 'harnesses.json')))

    if a.replay:
        rp = json.load(open(a.replay))
        if rp.get('harness') == 'e2':
            import e2
            tool = e2.Tool(cdir)
            r1 = tool.ask('A', rp['source_line'])
            print('assembler:', r1[:3])
            bad = False
            if r1[0] == 'OK':
                for l in [c for c in r1[1].split('\x1f') if c]:
                    r2 = tool.ask('I', l)
                    print('interpreter:', l, '->', r2[:2])
                    bad = bad or r2[0] != 'OK'
            tool.close()
            if bad:
                print('VIOLATION property=%s replay=%s' % (prop, a.replay))
                return 1
            return 0
        rr = P.replay_run(cdir, rp['harness'], rp['witness'], kf_off=True)
        print(json.dumps(rr, indent=1))
        if rr and (rr['fails'] or rr['panic']):
            print('VIOLATION property=%s replay=%s' % (prop, a.replay))
            return 1
        return 0

    names = select_harnesses(all_h, prop, tier, cfg.get('extra_harnesses'))
    skipped = json.load(open(os.path.join(cdir, 'info.json'))).get('skipped', {})
    not_attached = {n: m for n, m in skipped.items() if re.match(r'^%s[a-z]?_' % prop.lower(), n)}
    if a.only:
        names = [n for n in names if re.search(a.only, n)]
    if not names and not cfg.get('e2'):
        print('INCONCLUSIVE property=%s reason=no harnesses' % prop)
        return 2
    workers = int(os.environ.get('VERIF_JOBS', '12'))
    with ThreadPoolExecutor(max_workers=workers) as ex:
        results = list(ex.map(lambda n: run_one(cdir, n, all_h[n], cfg, tier), names))

    inconclusive, violations, notes = [], [], []
    for n, m in sorted(not_attached.items()):
        inconclusive.append('%s: harness not attached, the grammar no longer has %s' % (n, ', '.join(m[:3])))
    unreachable = []
    unsat_covers, sat_covers = [], set()
    obligations = discharged = 0
    functions = set()
    solver_time = 0.0
    samples = []
    stats_sum = {'program_steps': 0, 'vccs': 0, 'vccs_remaining': 0}
    per_harness = {}
    for res in results:
        name = res['name']
        ph = {'runs': res['runs']}
        per_harness[name] = ph
        if res['status'] != 'done':
            inconclusive.append('%s: %s' % (name, res.get('error')))
            continue
        solver_time += res['solver_time']
        pr = res['parsed']
        functions.update(pr['functions'])
        for k in stats_sum:
            stats_sum[k] += pr['stats'].get(k, 0)
        ph['backend'] = res['backend']
        ph['obligations'] = {k: v['verdict'] for k, v in pr['obligations'].items()}
        ph['covers'] = {k: v['sat'] for k, v in pr['covers'].items()}
        if res.get('second_backend'):
            ph['second_backend'] = res['second_backend']
            if res['second_backend']['disagreements']:
                inconclusive.append('%s: back ends disagree on %s' % (name, res['second_backend']['disagreements']))
        twin = '_twin_' in name
        if pr['unwinding']:
            inconclusive.append('%s: unwinding bound too small' % name)
        for lab, c in pr['covers'].items():
            if not c['sat']:
                unsat_covers.append((name, lab))
            else:
                sat_covers.add(lab)
        if twin:
            ok = any(v['verdict'] == 'violated' for k, v in pr['obligations'].items() if k.endswith('must_fail'))
            ph['twin_reached'] = ok
            if not ok:
                inconclusive.append('%s: reachability twin did not fail' % name)
            continue
        for lab, o in sorted(pr['obligations'].items()):
            obligations += 1
            if o['verdict'] == 'holds':
                discharged += 1
                if len(samples) < 6:
                    samples.append({'harness': name, 'obligation': lab, 'verdict': 'holds for every input (unsat)',
                                    'backend': res['backend']})
            elif o['verdict'] == 'unreachable':
                obligations -= 1
                unreachable.append((name, lab))
            elif o['verdict'] == 'undetermined':
                inconclusive.append('%s: obligation %s %s' % (name, lab, o['verdict']))
        todo = [(lab, o['pid']) for lab, o in sorted(pr['obligations'].items()) if o['verdict'] == 'violated']
        for imp in pr['implicit']:
            obligations += 1
            todo.append(('%s.nopanic[%s]' % (name, imp['desc'][:80]), imp['pid']))
        if not pr['implicit']:
            obligations += 1
            discharged += 1   # "no implicit check (overflow, bounds, unwrap, ...) can fail"
        seen_fail = set()
        for lab, pid in todo[:6]:
            rv = replay_violation(cdir, res, all_h[name], lab, pid, tier)
            if rv['reproduced']:
                key = (name, lab)
                if key in seen_fail:
                    continue
                seen_fail.add(key)
                violations.append({'harness': name, 'obligation': lab, 'witness': rv['witness'],
                                   'native': rv['native'], 'release': rv.get('release'), 'backend': res['backend'],
                                   'witness_source': rv.get('witness_source', 'solver trace')})
            else:
                inconclusive.append('%s: solver counterexample for %s did not reproduce natively (%s)'
                                    % (name, lab, rv.get('why')))
                notes.append({'harness': name, 'obligation': lab, 'witness': rv.get('witness'), 'attempts': rv.get('attempts')})
        if len(todo) > 6:
            notes.append({'harness': name, 'more_violated': [l for l, _ in todo[6:]]})

    # vacuity: an obligation that is statically present but unreachable in one instance of a shared
    # harness body is tolerated only if (a) the same label is reachable in another harness of this run
    # and (b) the harness itself reaches at least one obligation
    reach_labels = set()
    reach_harness = set()
    for res in results:
        if res['status'] != 'done':
            continue
        for lab, o in res['parsed']['obligations'].items():
            if o['verdict'] in ('holds', 'violated'):
                reach_labels.add(lab)
                reach_harness.add(res['name'])
    for name, lab in unsat_covers:
        if lab not in sat_covers:
            inconclusive.append('%s: cover %s unsatisfiable in every harness (vacuous?)' % (name, lab))
    for name, lab in unreachable:
        if lab not in reach_labels:
            inconclusive.append('%s: obligation %s unreachable in every harness (vacuous)' % (name, lab))
        elif name not in reach_harness:
            inconclusive.append('%s: no obligation reachable (vacuous harness)' % name)

    # glue / model validation: the same harness bodies run natively on random inputs must agree
    nrand = cfg.get('native_samples', {}).get(tier, 400 if tier == 'quick' else 5000)
    validated = 0
    if not violations:
        def rnd(n):
            return n, P.replay_random(cdir, n, seed + 1, nrand)
        with ThreadPoolExecutor(max_workers=workers) as ex:
            for n, rr in ex.map(rnd, [n for n in names if '_twin_' not in n and per_harness[n].get('backend')]):
                validated += rr['ran']
                per_harness[n]['native_random'] = {k: rr[k] for k in ('ran', 'skipped', 'bad')}
                if rr['bad']:
                    inconclusive.append('%s: native run of the harness fails where the solver proved it (%s)'
                                        % (n, rr['out'][-600:].replace('\n', ' | ')))

    # ---- E2: grammar engine (C10 / C11 / C14)
    e2res = None
    if cfg.get('e2') and not a.only:
        import e2
        try:
            e2res = e2.run(prop, tier, cdir, seed)
        except Exception as ex:  # pragma: no cover
            import traceback
            inconclusive.append('E2 engine failed: %s' % traceback.format_exc()[-600:])
        if e2res:
            obligations += e2res['obligations']
            discharged += e2res['discharged']
            solver_time += e2res['solver_time']
            validated += e2res['native_runs']
            samples = (e2res['samples'][:4] + samples)[:8]
            inconclusive += e2res['inconclusive']
            notes += e2res['notes']
            for v in e2res['violations']:
                violations.append({'harness': 'e2', 'obligation': v['obligation'], 'witness': {}, 'native': v, 'release': None,
                                   'backend': 'z3', 'source_line': v.get('source_line')})

    # known findings
    kf_lines = list(e2res['known']) if e2res else []
    for k in P.load_kf():
        if k.get('property') != prop:
            continue
        if k.get('status', 'open') != 'open' or k.get('engine') == 'e2':
            continue
        rr = P.replay_run(cdir, k['harness'], dict(k['witness']), kf_off=True)
        still = bool(rr and (k['label'] in rr['fails'] or (k.get('panic') and rr['panic'])))
        if k.get('panic'):
            k = dict(k, label='aborts (panic)')
        if still:
            kf_lines.append('KNOWN-FINDING: property=%s %s [%s] %s' % (prop, k['id'], k['label'], k['what']))
        else:
            notes.append({'known_finding_not_reproduced': k['id']})

    # ---- verdict
    rdir = os.path.join(EVDIR, 'replays', prop)
    vio_lines = []
    if violations:
        os.makedirs(rdir, exist_ok=True)
    for v in violations:
        fn = os.path.join(rdir, '%s.%s.json' % (v['harness'], re.sub(r'[^A-Za-z0-9_.]', '_', v['obligation'])[:80]))
        json.dump({'property': prop, 'harness': v['harness'], 'obligation': v['obligation'], 'witness': v['witness'],
                   'source_line': v.get('source_line'),
                   'native_dev': v['native'], 'native_release': v['release'], 'solver_backend': v['backend'],
                   'how': './check %s --replay %s' % (prop, fn)}, open(fn, 'w'), indent=1)
        vio_lines.append('VIOLATION property=%s replay=%s' % (prop, fn))

    wall = time.time() - t0
    ev = {
        'property_id': prop, 'tier': tier, 'seed': seed, 'level': 'model_checking',
        'coverage': {
            'evaluations': sum(len(r['runs']) for r in results) + (e2res['queries'] + e2res['native_runs'] if e2res else 0),
            'distinct_nontrivial': obligations,
            'rule': 'one evaluation = one CBMC run (harness x back end), one z3 query of the grammar engine, or one run of the real parsers by the grammar engine; distinct_nontrivial = distinct labelled '
                    'obligations (plus one no-panic obligation per harness) decided by the solver over all values '
                    'of the symbolic inputs',
            'samples': samples or [{'note': 'no discharged obligation to show', 'inconclusive': inconclusive[:3]}],
            'obligations': obligations, 'discharged': discharged,
            'traces_validated_against_impl': validated,
            'explanation': cfg.get('explanation', ''),
            'engine': 'kani 0.68 codegen -> goto-cc/goto-instrument -> cbmc 6.11 (back end per harness)',
            'functions_encoded': sorted(f for f in functions if not f.startswith(('kani::', 'core::', 'std::', 'alloc::', '<')))[:200],
            'bounds': cfg.get('bounds', 'loop-free: every value of every symbolic input'),
            'outside_claim': cfg.get('outside', ''),
            'harnesses': len(names), 'solver_time_s': round(solver_time, 1),
            'e2': ({k: e2res[k] for k in ('shapes', 'downstream_shapes', 'queries', 'native_runs', 'probes') if k in e2res} if e2res else None),
            'program_steps': stats_sum['program_steps'], 'vccs': stats_sum['vccs'],
            'vccs_after_simplification': stats_sum['vccs_remaining'],
            'per_harness': per_harness,
            'known_findings_reported': kf_lines, 'inconclusive': inconclusive, 'notes': notes,
            'exhaustive': False,
        },
        'assumptions': cfg.get('assumptions', []) + props.COMMON_ASSUMPTIONS,
        'wall_s': round(wall, 1), 'violations': len(violations),
    }
    os.makedirs(EVDIR, exist_ok=True)
    json.dump(ev, open(os.path.join(EVDIR, '%s.json' % prop), 'w'), indent=1)

    for l in kf_lines:
        print(l)
    print('property=%s tier=%s harnesses=%d obligations=%d discharged=%d violations=%d inconclusive=%d solver=%.0fs wall=%.0fs'
          % (prop, tier, len(names), obligations, discharged, len(violations), len(inconclusive), solver_time, wall))
    for v in violations:
        print('  violated: %s [%s] witness=%s' % (v['obligation'], v['harness'],
                                                  v.get('source_line') or {k: x for k, x in v['witness'].items() if not k.startswith('w_r_') or x}))
    for l in vio_lines:
        print(l)
    if vio_lines:
        return 1
    if inconclusive:
        for i in inconclusive[:20]:
            print('INCONCLUSIVE property=%s %s' % (prop, i))
        return 2
    return 0


if __name__ == '__main__':
    sys.exit(main(sys.argv[1:]))
