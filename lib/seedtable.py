"""Rewrites the seeded-change table at the end of DESIGN.md from /verif/seeded/*/meta.json."""
import glob, json, os, re
rows = []
for d in sorted(glob.glob('/verif/seeded/*')):
    m = os.path.join(d, 'meta.json')
    if not os.path.exists(m):
        continue
    j = json.load(open(m))
    c = j.get('check', {})
    needs = (j.get('needs') or '').strip().split('\n')
    what = next((l.strip('# ').strip() for l in needs if l.strip() and not l.startswith('#')), '')[:150]
    if j.get('detected'):
        by = ', '.join(sorted({re.sub(r'.*violated: (\S+).*', r'\1', v) for v in c.get('violated', [])}))[:140] or 'see meta.json'
        verdict = 'detected: ' + by
    elif c.get('exit') == 2:
        verdict = 'NOT detected (exit 2, inconclusive): ' + (j.get('why_missed') or (c.get('inconclusive') or [''])[0][:120])
    else:
        verdict = 'NOT detected (exit %s)' % c.get('exit') + (': ' + j['why_missed'] if j.get('why_missed') else '')
    if j.get('detected_by_other'):
        verdict += '; detected by ' + j['detected_by_other']
    rows.append('| %s | %s | %s |' % (j['seed'], what.replace('|', '/'), verdict.replace('|', '/')))
table = '\n| seed | change (needs) | quick check of its property |\n|---|---|---|\n' + '\n'.join(rows) + '\n'
p = '/verif/DESIGN.md'
s = open(p).read()
marker = '<!-- SEEDTABLE -->'
i = s.index(marker)
s = s[:i + len(marker)] + table
open(p, 'w').write(s)
print(len(rows), 'rows')
