"""Regenerates /verif/MANIFEST.json from lib/props.py (claimed checks) and NOT_APPLICABLE."""
import json, os, sys
sys.path.insert(0, os.path.dirname(os.path.abspath(__file__)))
import props
ids = [json.loads(l)['id'] for l in open('/verif/properties.jsonl')]
checks = []
for pid in ids:
    c = props.PROPS.get(pid)
    if not c or not c.get('claimed', True):
        continue
    checks.append({
        'property_id': pid,
        'quick_cmd': './check %s --tier quick' % pid,
        'thorough_cmd': './check %s --tier thorough' % pid,
        'evidence_file': '/verif/evidence/%s.json' % pid,
        'replay_cmd_template': './check %s --replay {path}' % pid,
        'engine': c.get('engine', 'kani-cbmc'),
        'level_claimed': {'category': 'model_checking', 'text': c['level_text'], 'design_ref': c.get('design_ref', 'DESIGN.md section 5, ' + pid)},
        'level_note': c['level_note'],
        'technique': c.get('technique', 'bounded model checking of the real Rust (Kani-compiled goto programs, CBMC with SAT/SMT back ends) against a reference oracle; counterexamples replayed natively'),
    })
na = []
for pid in ids:
    if pid not in {c['property_id'] for c in checks}:
        na.append({'property_id': pid, 'reason': props.NOT_APPLICABLE.get(pid, 'check not built yet')})
m = {
    'version': 1,
    'setup_cmd': './setup.sh',
    'hooks': {
        'guard': 'none committed to /repo: cfg(kani) and cfg(verif_native) are set only when the checks compile their scratch copy',
        'enable': 'checks rsync /repo\'s working tree to a scratch directory, attach /verif/harness/*.rs as child modules (lib/gen.py) and build that copy with cargo kani / RUSTFLAGS=--cfg verif_native',
        'baseline_off_cmd': 'cd /repo && cargo test --workspace --no-fail-fast --offline',
        'source_commits': [],
        'add_only': True,
    },
    'engines': [
        {'name': 'kani-cbmc', 'path': '/verif/lib/pipeline.py', 'serves_properties': [c['property_id'] for c in checks if c['engine'] == 'kani-cbmc'],
         'kind_free_text': 'E1: Kani 0.68 compiles the real functions and LALRPOP action functions to goto programs; CBMC 6.11 decides each labelled obligation (z3 / cvc5 / cadical back end per harness); E3: every counterexample is replayed natively on the real code'},
        {'name': 'gram-smt', 'path': '/verif/lib/e2.py', 'serves_properties': [c['property_id'] for c in checks if c['engine'] == 'gram-smt'],
         'kind_free_text': 'E2: the four LALRPOP grammars read back from the regenerated parser files, emitted templates observed by running the real actions, inclusion / role preservation / emptiness decided by z3 (cvc5 cross-check)'},
    ],
    'checks': checks,
    'not_applicable': na,
    'notes': 'Solver-based checking of the real code; see DESIGN.md. Exit codes: 0 held, 1 reproduced violation, 2 inconclusive (never a VIOLATION line).',
}
json.dump(m, open('/verif/MANIFEST.json', 'w'), indent=1)
print('claimed', [c['property_id'] for c in checks])
