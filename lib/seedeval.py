"""Evaluate a seeded change: confirm it (tests pass, demo fails with / passes without), then run
the property's check against a scratch worktree carrying the change (VERIF_REPO), never /repo.
usage: seedeval.py <PROP> <seed-id> <patch.diff> <demo.rs> [notes.md] [--tier quick]
writes /verif/seeded/<seed-id>/{patch.diff,demo.rs,meta.json}
"""
import json, os, shutil, subprocess, sys, time

def sh(cmd, cwd=None, env=None, timeout=3600):
    p = subprocess.run(cmd, cwd=cwd, env=env, stdout=subprocess.PIPE, stderr=subprocess.STDOUT, text=True, timeout=timeout)
    return p.returncode, p.stdout

def main():
    prop, sid, patch, demo = sys.argv[1:5]
    notes = sys.argv[5] if len(sys.argv) > 5 and not sys.argv[5].startswith('--') else None
    tier = 'quick'
    wt = '/tmp/evalwt-%s' % sid
    env = dict(os.environ, CARGO_NET_OFFLINE='true')
    if not demo.endswith('.sh'):
        env['CARGO_TARGET_DIR'] = '/tmp/evalwt-target'
    sh(['git', '-C', '/repo', 'worktree', 'remove', '--force', wt])
    rc, out = sh(['git', '-C', '/repo', 'worktree', 'add', '--detach', wt, 'HEAD'])
    meta = {'seed': sid, 'property': prop, 'base_commit': sh(['git', '-C', '/repo', 'rev-parse', 'HEAD'])[1].strip()}
    try:
        rc, out = sh(['git', 'apply', os.path.abspath(patch)], cwd=wt)
        meta['applies'] = rc == 0
        if rc != 0:
            meta['apply_error'] = out[-500:]
            return meta
        rc, out = sh(['cargo', 'test', '--offline'], cwd=wt, env=env)
        meta['suite_passes_with_change'] = 'test result: ok. 68 passed' in out
        if demo.endswith('.sh'):
            rc, out = sh(['bash', os.path.abspath(demo)], cwd=wt, env=env)
            meta['demo_fails_with_change'] = rc != 0
            sh(['git', 'apply', '-R', os.path.abspath(patch)], cwd=wt)
            rc, out = sh(['bash', os.path.abspath(demo)], cwd=wt, env=env)
            meta['demo_passes_without_change'] = rc == 0
        else:
            os.makedirs(os.path.join(wt, 'tests'), exist_ok=True)
            shutil.copy(demo, os.path.join(wt, 'tests', 'seed_demo.rs'))
            rc, out = sh(['cargo', 'test', '--offline', '--test', 'seed_demo'], cwd=wt, env=env)
            meta['demo_fails_with_change'] = rc != 0 and ('FAILED' in out or 'panicked' in out)
            sh(['git', 'apply', '-R', os.path.abspath(patch)], cwd=wt)
            rc, out = sh(['cargo', 'test', '--offline', '--test', 'seed_demo'], cwd=wt, env=env)
            meta['demo_passes_without_change'] = rc == 0
            os.remove(os.path.join(wt, 'tests', 'seed_demo.rs'))
        sh(['git', 'checkout', '--', '.'], cwd=wt)
        sh(['git', 'clean', '-fdq', '-e', 'target'], cwd=wt)
        sh(['git', 'apply', os.path.abspath(patch)], cwd=wt)
        evd = '/tmp/evalev-%s' % sid
        env2 = dict(os.environ, VERIF_REPO=wt, VERIF_EVIDENCE_DIR=evd, CARGO_NET_OFFLINE='true')
        t0 = time.time()
        rc, out = sh(['/verif/check', prop, '--tier', tier], cwd='/verif', env=env2, timeout=7200)
        meta['check'] = {'cmd': 'VERIF_REPO=<worktree with patch> ./check %s --tier %s' % (prop, tier), 'exit': rc,
                         'wall_s': round(time.time() - t0), 'violation_lines': [l for l in out.splitlines() if l.startswith('VIOLATION')][:8],
                         'violated': [l.strip() for l in out.splitlines() if l.strip().startswith('violated:')][:8],
                         'inconclusive': [l for l in out.splitlines() if l.startswith('INCONCLUSIVE')][:5],
                         'tail': out[-600:] if rc not in (0, 1) else ''}
        meta['detected'] = rc == 1 and bool(meta['check']['violation_lines'])
        shutil.rmtree(evd, ignore_errors=True)
    finally:
        sh(['git', '-C', '/repo', 'worktree', 'remove', '--force', wt])
        d = '/verif/seeded/%s' % sid
        os.makedirs(d, exist_ok=True)
        if os.path.abspath(patch) != os.path.join(d, 'patch.diff'):
            shutil.copy(patch, os.path.join(d, 'patch.diff'))
        if os.path.abspath(demo) != os.path.join(d, 'demo' + os.path.splitext(demo)[1]):
            shutil.copy(demo, os.path.join(d, 'demo' + os.path.splitext(demo)[1]))
        if notes and os.path.exists(notes):
            meta['needs'] = open(notes).read()[:1500]
        elif os.path.exists(os.path.join(d, 'meta.json')):
            meta['needs'] = json.load(open(os.path.join(d, 'meta.json'))).get('needs')
        json.dump(meta, open(os.path.join(d, 'meta.json'), 'w'), indent=1)
        print(json.dumps({k: v for k, v in meta.items() if k != 'needs'}, indent=1))
    return meta

if __name__ == '__main__':
    main()
