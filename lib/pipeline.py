"""E1/E3 pipeline: scratch copy of /repo's working tree -> native build (regenerates the LALRPOP
parsers) -> generator -> Kani codegen -> CBMC runs (back end chosen per harness) -> native
replay of every counterexample -> verdict + evidence.  See DESIGN.md sections 2-3.
"""
import fcntl
import glob
import hashlib
import json
import os
import re
import resource
import shutil
import subprocess
import sys
import time
from concurrent.futures import ThreadPoolExecutor

sys.path.insert(0, os.path.dirname(os.path.abspath(__file__)))
import gen  # noqa: E402

VERIF = os.path.dirname(os.path.dirname(os.path.abspath(__file__)))
REPO = os.environ.get('VERIF_REPO', '/repo')
CACHE = os.path.join(VERIF, '.cache')
SCRATCH_ROOT = os.environ.get('VERIF_SCRATCH', '/var/tmp')
KANI_HOME = os.path.expanduser('~/.kani/kani-0.68.0')
KANI_LIB_C = os.path.join(KANI_HOME, 'library/kani/kani_lib.c')
ENV = dict(os.environ, CARGO_NET_OFFLINE='true', CARGO_TERM_COLOR='never')
ENV.pop('RUSTFLAGS', None)

CBMC_FLAGS = ['--no-malloc-may-fail', '--no-undefined-shift-check', '--no-signed-overflow-check',
              '--nan-check', '--no-self-loops-to-assumptions', '--no-pointer-primitive-check',
              '--object-bits', '16', '--slice-formula']
BACKENDS = {
    'z3': ['--z3'],
    'cvc5': ['--cvc5'],
    'sat': ['--sat-solver', 'cadical'],
    'sat-arrays': ['--sat-solver', 'cadical', '--arrays-uf-always', '--max-field-sensitivity-array-size', '0'],
}
MEM_LIMIT = int(os.environ.get('VERIF_MEM_GB', '14')) * (1 << 30)


def log(*a):
    print('[verif]', *a, file=sys.stderr, flush=True)


def sh(cmd, cwd=None, env=None, timeout=None, check=True):
    p = subprocess.run(cmd, cwd=cwd, env=env or ENV, stdout=subprocess.PIPE, stderr=subprocess.STDOUT,
                       text=True, timeout=timeout)
    if check and p.returncode != 0:
        raise RuntimeError('command failed (%d): %s\n%s' % (p.returncode, ' '.join(cmd), p.stdout[-4000:]))
    return p


# ------------------------------------------------------------------ cache key
def tree_files(root):
    out = []
    for base in ('src', 'Cargo.toml', 'Cargo.lock', 'build.rs'):
        p = os.path.join(root, base)
        if os.path.isfile(p):
            out.append(p)
        else:
            for d, _, fs in os.walk(p):
                for f in fs:
                    out.append(os.path.join(d, f))
    return sorted(out)


def compute_key():
    h = hashlib.sha256()
    for f in tree_files(REPO):
        h.update(os.path.relpath(f, REPO).encode())
        h.update(b'\0')
        with open(f, 'rb') as fh:
            h.update(fh.read())
        h.update(b'\0')
    for f in sorted(glob.glob(os.path.join(VERIF, 'harness', '*.rs')) + glob.glob(os.path.join(VERIF, 'lib', '*.py'))
                    + glob.glob(os.path.join(VERIF, 'lib', '*.rs')) + [os.path.join(VERIF, 'known_findings.json')]):
        if os.path.exists(f):
            h.update(os.path.basename(f).encode())
            with open(f, 'rb') as fh:
                h.update(fh.read())
    return h.hexdigest()[:20]


def load_kf():
    p = os.path.join(VERIF, 'known_findings.json')
    if not os.path.exists(p):
        return []
    return json.load(open(p)).get('findings', [])


# ------------------------------------------------------------------ prepare (build everything once per tree state)
def prepare():
    """returns the cache directory for the current /repo working tree + /verif harness state."""
    os.makedirs(CACHE, exist_ok=True)
    key = compute_key()
    cdir = os.path.join(CACHE, 'k-' + key)
    lock = open(os.path.join(CACHE, 'lock'), 'w')
    fcntl.flock(lock, fcntl.LOCK_EX)
    try:
        if os.path.exists(os.path.join(cdir, 'READY')):
            os.utime(cdir)
            return cdir
        if os.path.exists(cdir):
            shutil.rmtree(cdir)
        t0 = time.time()
        # one fixed scratch path per /verif directory (builds are serialised by the lock above): cargo keys
        # its fingerprints by package path, so a new path per run would grow the target directories, and a
        # path that happens to be reused (pid reuse) with rsync-preserved mtimes would look 'fresh' to cargo
        # and skip build.rs, leaving a stale generated parser in the copy
        scratch = os.path.join(SCRATCH_ROOT, 'verif-8086.' + hashlib.sha256(VERIF.encode()).hexdigest()[:10])
        if os.path.exists(scratch):
            shutil.rmtree(scratch)
        os.makedirs(scratch)
        tree = os.path.join(scratch, 'tree')
        try:
            _build(tree, cdir)
        finally:
            shutil.rmtree(scratch, ignore_errors=True)
        open(os.path.join(cdir, 'READY'), 'w').write('%.1f\n' % (time.time() - t0))
        log('prepared %s in %.0fs' % (cdir, time.time() - t0))
        _evict(cdir)
        return cdir
    finally:
        fcntl.flock(lock, fcntl.LOCK_UN)
        lock.close()


def _evict(keep):
    ks = sorted(glob.glob(os.path.join(CACHE, 'k-*')), key=os.path.getmtime, reverse=True)
    for k in ks[8:]:
        if k != keep:
            shutil.rmtree(k, ignore_errors=True)


class BuildError(Exception):
    pass


def _errors(out):
    """the compiler errors of a cargo log (with a little context), not its tail"""
    lines = out.splitlines()
    keep = []
    for i, l in enumerate(lines):
        if l.startswith('error'):
            keep += lines[i:i + 8] + ['...']
    return '\n'.join(keep[:120]) if keep else out[-3000:]


def _build(tree, cdir):
    # --no-times: every file of the copy is newer than any earlier build of this path, so cargo rebuilds the
    # crate (and re-runs build.rs, which regenerates the parsers from the current .lalrpop sources)
    sh(['rsync', '-a', '--no-times', '--exclude', 'target', '--exclude', '.git', REPO + '/', tree + '/'])
    tdir = os.path.join(CACHE, 'target-native')
    # 1. native build: build.rs regenerates the four parsers from the current .lalrpop sources
    p = sh(['cargo', 'build', '--offline', '--target-dir', tdir], cwd=tree, check=False, timeout=1200)
    if p.returncode != 0:
        raise BuildError('the working tree does not build:\n' + _errors(p.stdout))
    # 2. generator
    kf_active = sorted(k['id'] for k in load_kf() if k.get('status', 'open') == 'open')
    info = gen.attach(tree, kf_active)
    os.makedirs(cdir)
    ginfo = {}
    for point, g in info['grammars'].items():
        ginfo[point] = {'productions': [[p.lhs, p.syms, p.action] for p in g.prods],
                        'leaves': {k: [t for _, t in v] for k, v in info['leaves'][point].items()}}
    json.dump({'grammars': ginfo, 'harness_files': info['harness_files'], 'kf_active': kf_active, 'skipped': info.get('skipped', {}), 'driver_copies': info.get('driver_copies')},
              open(os.path.join(cdir, 'info.json'), 'w'))
    # 3. native replay binaries (dev profile = the profile Kani models; release = what users run)
    env = dict(ENV, RUSTFLAGS='--cfg verif_native -A warnings')
    rdir = os.path.join(CACHE, 'target-replay')
    p = sh(['cargo', 'build', '--offline', '--example', 'verif_replay', '--target-dir', rdir], cwd=tree, env=env,
           check=False, timeout=1200)
    if p.returncode != 0:
        raise BuildError('harnesses do not compile natively against this tree:\n' + _errors(p.stdout))
    shutil.copy(os.path.join(rdir, 'debug/examples/verif_replay'), os.path.join(cdir, 'replay-dev'))
    # E2 observation / replay tool: the real parsers, plain build (no cfg)
    p = sh(['cargo', 'build', '--offline', '--example', 'verif_e2', '--target-dir', rdir], cwd=tree, env=env, check=False, timeout=1200)
    if p.returncode != 0:
        raise BuildError('E2 tool does not compile against this tree:\n' + p.stdout[-4000:])
    shutil.copy(os.path.join(rdir, 'debug/examples/verif_e2'), os.path.join(cdir, 'e2tool'))
    # keep the regenerated parser files: E2 reads the four grammars back from them
    os.makedirs(os.path.join(cdir, 'grammar'), exist_ok=True)
    for rel in ('src/lib/interpreter/interpreter.rs', 'src/lib/preprocessor/preprocessor.rs',
                'src/lib/data_parser/data_parser.rs', 'src/driver/print.rs'):
        shutil.copy(os.path.join(tree, rel), os.path.join(cdir, 'grammar', os.path.basename(rel)))
    p = sh(['cargo', 'build', '--offline', '--release', '--example', 'verif_replay', '--target-dir', rdir], cwd=tree,
           env=env, check=False, timeout=1200)
    if p.returncode == 0:
        shutil.copy(os.path.join(rdir, 'release/examples/verif_replay'), os.path.join(cdir, 'replay-release'))
    # binary crate harnesses (driver/print.rs, driver/interrupts.rs) replay through the binary itself
    p = sh(['cargo', 'build', '--offline', '--bin', 'emulator_8086', '--target-dir', rdir], cwd=tree, env=env,
           check=False, timeout=1200)
    if p.returncode != 0:
        raise BuildError('binary-crate harnesses do not compile natively against this tree:\n' + p.stdout[-6000:])
    shutil.copy(os.path.join(rdir, 'debug/emulator_8086'), os.path.join(cdir, 'replaybin-dev'))
    # 4. Kani codegen: one goto binary per #[kani::proof]
    kdir = os.path.join(CACHE, 'target-kani')
    for d in glob.glob(os.path.join(kdir, 'kani', '*', 'debug', 'build', 'emulator_8086')):
        shutil.rmtree(d, ignore_errors=True)
    p = sh(['cargo', 'kani', '--only-codegen', '-Z', 'stubbing', '--target-dir', kdir], cwd=tree, check=False,
           timeout=2400)
    if p.returncode != 0:
        raise BuildError('harnesses do not compile under Kani against this tree:\n' + _errors(p.stdout))
    metas = glob.glob(os.path.join(kdir, 'kani', '*', 'debug', 'build', 'emulator_8086', '*', 'out', '*.kani-metadata.json'))
    # also look in the plain layout
    metas += glob.glob(os.path.join(kdir, 'kani', '**', '*.kani-metadata.json'), recursive=True)
    metas = sorted(set(metas))
    gdir = os.path.join(cdir, 'goto')
    os.makedirs(gdir)
    harnesses = {}
    for m in metas:
        md = json.load(open(m))
        for h in md.get('proof_harnesses', []):
            short = h['pretty_name'].rsplit('::', 1)[-1]
            if short in harnesses:
                continue
            dst = os.path.join(gdir, short + '.symtab.out')
            shutil.copy(h['goto_file'], dst)
            harnesses[short] = {'pretty': h['pretty_name'], 'mangled': h['mangled_name'], 'goto': dst,
                                'unwind': h['attributes'].get('unwind_value'), 'crate': h['crate_name'],
                                'file': h['original_file'], 'lines': [h['original_start_line'], h['original_end_line']]}
    if not harnesses:
        raise BuildError('Kani produced no harnesses:\n' + p.stdout[-3000:])
    json.dump(harnesses, open(os.path.join(cdir, 'harnesses.json'), 'w'), indent=1)
    for d in glob.glob(os.path.join(kdir, 'kani', '*', 'debug', 'build', 'emulator_8086')):
        shutil.rmtree(d, ignore_errors=True)


# ------------------------------------------------------------------ goto post-processing + cbmc
def link_harness(cdir, name, h):
    out = os.path.join(cdir, 'goto', name + '.g')
    if os.path.exists(out):
        return out
    import uuid
    tmp = out + '.tmp' + uuid.uuid4().hex
    sh(['goto-cc', h['goto'], KANI_LIB_C, '-o', tmp])
    sh(['goto-cc', tmp, '--function', h['mangled'], '-o', tmp])
    sh(['goto-instrument', '--add-library', '--no-malloc-may-fail', tmp, tmp])
    sh(['goto-instrument', '--generate-function-body-options', 'assert-false-assume-false',
        '--generate-function-body', '.*', '--drop-unused-functions', tmp, tmp])
    sh(['goto-instrument', '--ensure-one-backedge-per-target', tmp, tmp])
    os.replace(tmp, out)
    return out


def _tmpenv():
    """CBMC writes its SMT2 problem/result files to TMPDIR and leaves them behind when it is killed
    (time-out, lost race): every run gets its own directory, removed afterwards"""
    import tempfile
    d = tempfile.mkdtemp(prefix='verif-cbmc-', dir=SCRATCH_ROOT)
    return d, dict(os.environ, TMPDIR=d)


def _limits():
    resource.setrlimit(resource.RLIMIT_AS, (MEM_LIMIT, MEM_LIMIT))
    os.setsid()


PROP_RE = re.compile(r'^\[(?P<id>[^\]]+)\] (?:file \S+ )?(?:line (?P<line>\d+) )?(?P<desc>.*): (?P<st>SUCCESS|FAILURE|UNKNOWN|ERROR|UNDETERMINED)$')
CHECKID_RE = re.compile(r'KANI_CHECK_ID_[\w.]+::(\w+)')


def run_cbmc(goto, backend, unwind, timeout, extra=()):
    cmd = ['cbmc', goto] + CBMC_FLAGS + BACKENDS[backend] + list(extra)
    if unwind:
        cmd += ['--unwind', str(unwind), '--unwinding-assertions']
    t0 = time.time()
    tmpd, tenv = _tmpenv()
    try:
        p = subprocess.Popen(cmd, stdout=subprocess.PIPE, stderr=subprocess.STDOUT, text=True, preexec_fn=_limits, env=tenv)
        try:
            out, _ = p.communicate(timeout=timeout)
        except subprocess.TimeoutExpired:
            try:
                os.killpg(p.pid, 9)
            except Exception:
                p.kill()
            p.communicate()
            return {'status': 'timeout', 'time': time.time() - t0, 'out': '', 'backend': backend}
    except Exception as e:  # pragma: no cover
        return {'status': 'error', 'time': time.time() - t0, 'out': str(e), 'backend': backend}
    finally:
        shutil.rmtree(tmpd, ignore_errors=True)
    dt = time.time() - t0
    res = {'time': dt, 'out': out, 'backend': backend, 'rc': p.returncode}
    if 'VERIFICATION SUCCESSFUL' in out or 'VERIFICATION FAILED' in out:
        res['status'] = 'done'
    else:
        res['status'] = 'error'
    return res


def race_cbmc(goto, backends, unwind, timeout):
    """run several back ends concurrently on the same goto binary; first verdict wins"""
    import threading
    procs = {}
    results = {}
    tmpdirs = []
    lock = threading.Lock()
    done_evt = threading.Event()
    t0 = time.time()

    def worker(be):
        cmd = ['cbmc', goto] + CBMC_FLAGS + BACKENDS[be]
        if unwind:
            cmd += ['--unwind', str(unwind), '--unwinding-assertions']
        tmpd, tenv = _tmpenv()
        tmpdirs.append(tmpd)
        try:
            p = subprocess.Popen(cmd, stdout=subprocess.PIPE, stderr=subprocess.STDOUT, text=True, preexec_fn=_limits, env=tenv)
        except Exception as e:  # pragma: no cover
            results[be] = {'status': 'error', 'time': 0.0, 'out': str(e), 'backend': be}
            return
        with lock:
            procs[be] = p
        try:
            out, _ = p.communicate(timeout=timeout)
            st = 'done' if ('VERIFICATION SUCCESSFUL' in out or 'VERIFICATION FAILED' in out) else 'error'
            if p.returncode is not None and p.returncode < 0:
                st = 'killed'
        except subprocess.TimeoutExpired:
            try:
                os.killpg(p.pid, 9)
            except Exception:
                p.kill()
            out, _ = p.communicate()
            st = 'timeout'
        results[be] = {'status': st, 'time': time.time() - t0, 'out': out, 'backend': be, 'rc': p.returncode}
        if st == 'done':
            done_evt.set()

    ths = [threading.Thread(target=worker, args=(be,)) for be in backends]
    for t in ths:
        t.start()
    while any(t.is_alive() for t in ths):
        if done_evt.wait(0.2):
            break
    winner = None
    for be in backends:
        if results.get(be, {}).get('status') == 'done':
            winner = results[be]
            break
    if winner is not None:
        with lock:
            for be, p in procs.items():
                if p.poll() is None:
                    try:
                        os.killpg(p.pid, 9)
                    except Exception:
                        pass
    for t in ths:
        t.join()
    for d in tmpdirs:
        shutil.rmtree(d, ignore_errors=True)
    return {'winner': winner, 'all': [results[be] for be in backends if be in results]}


def parse_cbmc(out):
    """-> dict with obligations, covers, implicit failures, reachability, functions, stats"""
    props = []
    functions = set()
    cur_fn = None
    for line in out.splitlines():
        m = re.match(r'^(\S.*) function (.+)$', line)
        if m and not line.startswith('['):
            cur_fn = m.group(2).strip()
            functions.add(cur_fn)
            continue
        m = PROP_RE.match(line)
        if m:
            props.append((m.group('id'), m.group('desc'), m.group('st'), cur_fn, m.group('line')))
    reach = {}
    for pid, desc, st, fn, _ in props:
        if '.reachability_check.' in pid:
            m = CHECKID_RE.search(desc)
            if m:
                reach[m.group(1)] = (st == 'FAILURE')   # FAILURE = reachable
    obligations, covers, implicit, unwinding = {}, {}, [], []
    for pid, desc, st, fn, line in props:
        if '.reachability_check.' in pid:
            continue
        m = CHECKID_RE.search(desc)
        cid = m.group(1) if m else None
        text = re.sub(r'^\[KANI_CHECK_ID_[^\]]*\]\s*', '', desc)
        reachable = reach.get(cid, True) if cid else True
        if '.cover.' in pid and text.startswith('!'):
            label = text[1:]
            v = 'violated' if st == 'FAILURE' else ('holds' if st == 'SUCCESS' else 'undetermined')
            if st == 'SUCCESS' and not reachable:
                v = 'unreachable'
            # the same label may be instantiated more than once (macro expansion): worst wins
            prev = obligations.get(label)
            rank = {'violated': 3, 'undetermined': 2, 'unreachable': 1, 'holds': 0}
            if prev is None or rank[v] > rank[prev['verdict']]:
                obligations[label] = {'verdict': v, 'pid': pid}
        elif '.cover.' in pid:
            covers[text] = {'sat': st == 'FAILURE', 'pid': pid}
        elif '.unwind.' in pid or 'unwinding assertion' in text:
            if st != 'SUCCESS':
                unwinding.append({'pid': pid, 'desc': text})
        else:
            if st != 'SUCCESS':
                implicit.append({'pid': pid, 'desc': text, 'fn': fn, 'line': line, 'st': st})
    stats = {}
    m = re.search(r'size of program expression: (\d+) steps', out)
    if m:
        stats['program_steps'] = int(m.group(1))
    m = re.search(r'Generated (\d+) VCC\(s\), (\d+) remaining after simplification', out)
    if m:
        stats['vccs'] = int(m.group(1))
        stats['vccs_remaining'] = int(m.group(2))
    m = re.search(r'(\d+) variables, (\d+) clauses', out)
    if m:
        stats['sat_vars'], stats['sat_clauses'] = int(m.group(1)), int(m.group(2))
    return {'obligations': obligations, 'covers': covers, 'implicit': implicit, 'unwinding': unwinding,
            'functions': sorted(functions), 'stats': stats, 'nprops': len(props)}


def trace_witness(goto, backend, unwind, pid, timeout):
    extra = ['--trace', '--property', pid]
    r = run_cbmc(goto, backend, unwind, timeout, extra)
    wit = {}
    if r['status'] != 'done':
        return None, r
    for line in r['out'].splitlines():
        m = re.match(r'^\s+(w_\w+)=(-?\d+|TRUE|FALSE)(?:ull|ul|ll|u|l)?\b', line)
        if m and m.group(1) not in wit:
            v = m.group(2)
            wit[m.group(1)] = 1 if v == 'TRUE' else 0 if v == 'FALSE' else int(v)
    return wit, r


# ------------------------------------------------------------------ native replay
def _replay_cmd(cdir, harness, profile):
    hs = json.load(open(os.path.join(cdir, 'harnesses.json')))
    if hs.get(harness, {}).get('crate', '').endswith('_lib') or harness not in hs:
        return [os.path.join(cdir, 'replay-' + profile)]
    return [os.path.join(cdir, 'replaybin-dev'), '--verif-replay']


def replay_run(cdir, harness, wit, profile='dev', kf_off=False, timeout=120):
    cmd0 = _replay_cmd(cdir, harness, profile)
    binp = cmd0[0]
    if not os.path.exists(binp):
        return None
    wf = os.path.join(cdir, 'wit-%d-%s.txt' % (os.getpid(), harness))
    with open(wf, 'w') as f:
        for k, v in sorted(wit.items()):
            f.write('%s=%d\n' % (k, v))
    env = dict(ENV)
    if kf_off:
        env['VERIF_KF_OFF'] = '1'
    try:
        p = subprocess.run(cmd0 + ['run', harness, wf], stdout=subprocess.PIPE, stderr=subprocess.STDOUT, text=True,
                           timeout=timeout, env=env)
    except subprocess.TimeoutExpired:
        return {'fails': [], 'panic': None, 'assume': [], 'missing': [], 'notes': [], 'timeout': True}
    finally:
        try:
            os.unlink(wf)
        except OSError:
            pass
    return parse_replay(p.stdout)


def parse_replay(out):
    r = {'fails': [], 'panic': None, 'assume': [], 'missing': [], 'notes': [], 'covers': [], 'complete': False}
    for line in out.splitlines():
        if line.startswith('FAIL '):
            r['fails'].append(line[5:])
        elif line.startswith('PANIC '):
            r['panic'] = line[6:]
        elif line.startswith('ASSUME '):
            r['assume'].append(line[7:])
        elif line.startswith('MISSING '):
            r['missing'].append(line[8:])
        elif line.startswith('NOTE '):
            r['notes'].append(line[5:])
        elif line.startswith('COVER '):
            r['covers'].append(line[6:])
        elif line == 'END':
            r['complete'] = True
    return r


def complete_witness(cdir, harness, wit, label, count=3000, timeout=300):
    """CBMC's trace sometimes omits an input (sliced away in the printed trace although it matters).  The
    partial witness is pinned, the missing inputs are drawn at random natively, and the first run that fails
    the SAME obligation on the real code is returned as the completed witness (None if there is none)."""
    wf = os.path.join(cdir, 'pin-%d-%s.txt' % (os.getpid(), harness))
    with open(wf, 'w') as f:
        for k, v in sorted(wit.items()):
            if k != 'bg':
                f.write('%s=%d\n' % (k, v))
    try:
        r = replay_random(cdir, harness, 7, count, timeout, pin=wf)
    finally:
        try:
            os.remove(wf)
        except OSError:
            pass
    for blk in re.split(r'^CASE \d+$', r.get('out', ''), flags=re.M)[1:]:
        fails = re.findall(r'^FAIL (.+)$', blk, flags=re.M)
        if label in fails or (label.endswith(']') and re.search(r'^PANIC', blk, flags=re.M)):
            return {k: int(v) for k, v in re.findall(r'^WIT (\w+)=(-?\d+)$', blk, flags=re.M)}
    return None


def replay_random(cdir, harness, seed, count, timeout=300, pin=None):
    cmd0 = _replay_cmd(cdir, harness, 'dev')
    try:
        p = subprocess.run(cmd0 + ['random', harness, str(seed), str(count)] + ([pin] if pin else []), stdout=subprocess.PIPE,
                           stderr=subprocess.STDOUT, text=True, timeout=timeout, env=ENV)
    except subprocess.TimeoutExpired:
        return {'ran': 0, 'skipped': 0, 'bad': 0, 'out': 'timeout'}
    m = re.search(r'RANDOM ran=(\d+) skipped=(\d+) bad=(\d+)', p.stdout)
    if not m:
        return {'ran': 0, 'skipped': 0, 'bad': 0, 'out': p.stdout[-2000:]}
    return {'ran': int(m.group(1)), 'skipped': int(m.group(2)), 'bad': int(m.group(3)), 'out': p.stdout[-20000:] if pin else p.stdout[-3000:]}
