"""Generator: attaches the harnesses of /verif/harness to a scratch copy of /repo's working tree.

Nothing is written to /repo.  In the scratch copy:
  * src/lib/verif_rt.rs, verif_map.rs, verif_gen.rs and verif_lib_*.rs become crate modules;
  * each generated parser file (and lexer_helper.rs / preprocessor_util.rs) gets ONE appended
    line declaring a child module; a child module may call its parent's private items, so the
    harnesses call the very `__actionN` functions the parser driver would call;
  * the child module starts with a generated *shim* that gives every production a stable name
    (read from the `// lhs = rhs => ActionFn(N);` comments of the regenerated file) and
    dispatchers for enumeration-like nonterminals (registers, mnemonic tables);
  * for the Kani build only, std HashMap/HashSet in util/*.rs are replaced by an association
    list (harness/map.rs) -- see DESIGN.md section 7.
"""
import glob
import json
import os
import re
import sys

sys.path.insert(0, os.path.dirname(os.path.abspath(__file__)))
import gram  # noqa: E402

VERIF = os.path.dirname(os.path.dirname(os.path.abspath(__file__)))
HARNESS = os.path.join(VERIF, 'harness')

CFG = '#[cfg(any(kani, verif_native))]'

# attach points: prefix of harness file -> (crate, file in tree whose child it becomes, module path)
POINTS = {
    'interp': ('lib', 'src/lib/interpreter/interpreter.rs', 'crate::interpreter::interpreter::verif_interp'),
    'prep': ('lib', 'src/lib/preprocessor/preprocessor.rs', 'crate::preprocessor::preprocessor::verif_prep'),
    'data': ('lib', 'src/lib/data_parser/data_parser.rs', 'crate::data_parser::data_parser::verif_data'),
    'lex': ('lib', 'src/lib/preprocessor/lexer_helper.rs', 'crate::preprocessor::lexer_helper::verif_lex'),
    'putil': ('lib', 'src/lib/util/preprocessor_util.rs', 'crate::util::preprocessor_util::verif_putil'),
    'print': ('bin', 'src/driver/print.rs', 'crate::driver::print::verif_print'),
    'intr': ('bin', 'src/driver/interrupts.rs', 'crate::driver::interrupts::verif_intr'),
    # copies made by make_driver_copies(): the real text of run() / user_interface() with the environment stubbed
    'drv': ('bin', 'src/driver/verif_driver_copy.rs', 'crate::driver::verif_driver_copy::verif_drvh'),
    'ui': ('bin', 'src/driver/verif_ui_copy.rs', 'crate::driver::verif_ui_copy::verif_uih'),
}

PRINT_SHADOW = '''
// ---- inserted by /verif/lib/gen.py (scratch copy only): console output goes to the ghost log
#[cfg(any(kani, verif_native))]
macro_rules! print {
    ($fmt:expr) => { crate::driver::verif_io::log_event($fmt, &[]) };
    ($fmt:expr, $($a:expr),* $(,)?) => { crate::driver::verif_io::log_event($fmt, &[$(crate::driver::verif_io::ToLog::to_log(&($a))),*]) };
}
#[cfg(any(kani, verif_native))]
macro_rules! println {
    () => { crate::driver::verif_io::log_event("\\n", &[]) };
    ($fmt:expr) => { crate::driver::verif_io::log_event(concat!($fmt, "\\n"), &[]) };
    ($fmt:expr, $($a:expr),* $(,)?) => { crate::driver::verif_io::log_event(concat!($fmt, "\\n"), &[$(crate::driver::verif_io::ToLog::to_log(&($a))),*]) };
}
// ---- end of insertion
'''


def insert_after_header(path, text):
    """insert `text` after the leading comment lines (LALRPOP keeps its version / hash header there)"""
    src = open(path).read()
    if 'inserted by /verif/lib/gen.py' in src:
        return
    lines = src.split('\n')
    i = 0
    while i < len(lines) and lines[i].startswith('//'):
        i += 1
    lines[i:i] = text.split('\n')
    open(path, 'w').write('\n'.join(lines))

PARSER_POINTS = {'interp', 'prep', 'data', 'print'}

# names that the copies of driver.rs / user_interface.rs take from verif_drv (harness/drv.rs) instead of
# the real regex engine, parsers, console and machine constructor
DRV_STUBBED = ['Regex', 'preprocess', 'user_interface', 'PrintParser', 'DataParser', 'Interpreter', 'get_err_pos',
               'int_13', 'int_21', 'VM']


def rewrite_uses(src, stubbed):
    """`use` lines of a driver source file: every imported name in `stubbed` is taken from
    super::verif_drv instead; nothing else of the text changes.  returns (text, names redirected)"""
    taken = []

    def one(m):
        body = m.group(1).strip()
        mm = re.match(r'^(.*?)::\{(.*)\}$', body, re.S)
        if mm:
            prefix, names = mm.group(1), [n.strip() for n in mm.group(2).split(',') if n.strip()]
            keep = [n for n in names if n.split(' as ')[-1].strip() not in stubbed]
            taken.extend(n.split(' as ')[-1].strip() for n in names if n.split(' as ')[-1].strip() in stubbed)
            if not keep:
                return ''
            return 'use %s::{%s};' % (prefix, ', '.join(keep))
        last = body.rsplit('::', 1)[-1].split(' as ')[-1].strip()
        if last in stubbed:
            taken.append(last)
            return ''
        return m.group(0)

    out = re.sub(r'(?m)^use ([^;]+);', one, src)
    if taken:
        out = 'use super::verif_drv::{%s};\n' % ', '.join(sorted(set(taken))) + out
    return out, sorted(set(taken))


def make_driver_copies(tree, info):
    """src/driver/verif_driver_copy.rs, verif_ui_copy.rs: the text of driver.rs / user_interface.rs with the
    environment redirected (imports; std::io / std::process calls)"""
    drv = os.path.join(tree, 'src/driver')
    with open(os.path.join(drv, 'verif_drv.rs'), 'w') as f:
        f.write(open(os.path.join(HARNESS, 'drv.rs')).read())
    append_once(os.path.join(drv, 'mod.rs'), '%s pub mod verif_drv;' % CFG)
    rep = {}
    # --- CMDDriver::run
    src = open(os.path.join(drv, 'driver.rs')).read()
    txt, taken = rewrite_uses(src, set(DRV_STUBBED))
    rep['driver.rs'] = {'redirected_imports': taken, 'textual': {}}
    with open(os.path.join(drv, 'verif_driver_copy.rs'), 'w') as f:
        f.write(txt)
    insert_after_header(os.path.join(drv, 'verif_driver_copy.rs'), PRINT_SHADOW)
    append_once(os.path.join(drv, 'mod.rs'), '%s pub mod verif_driver_copy;' % CFG)
    # --- user_interface
    src = open(os.path.join(drv, 'user_interface.rs')).read()
    txt, taken = rewrite_uses(src, {'PrintParser'})
    textual = {}
    for old, new in (('std::io::stdin().read_line(', 'crate::driver::verif_io::read_line('),
                     ('std::io::stdout().flush()', 'crate::driver::verif_drv::flush_stub()'),
                     ('std::process::exit(', 'return crate::driver::verif_drv::exit_stub(')):
        textual[old] = txt.count(old)
        txt = txt.replace(old, new)
    rep['user_interface.rs'] = {'redirected_imports': taken, 'textual': textual}
    with open(os.path.join(drv, 'verif_ui_copy.rs'), 'w') as f:
        f.write(txt)
    insert_after_header(os.path.join(drv, 'verif_ui_copy.rs'), PRINT_SHADOW)
    append_once(os.path.join(drv, 'mod.rs'), '%s pub mod verif_ui_copy;' % CFG)
    info['driver_copies'] = rep


def strip_lifetimes(t):
    t = re.sub(r"&'\w+ ", '&', t)
    t = t.replace("<'input>", "<'static>").replace("'input", "'static").replace("'s ", '')
    return t


def grammar_params(g):
    """[(name, type)] of the grammar parameters (the leading args of every action fn)."""
    args, _ = g.sigs[min(g.sigs)]
    out = []
    for a in args:
        name, ty = a.split(':', 1)
        name = name.strip()
        if name.startswith('__') or name.startswith('('):
            break
        out.append((name, ty.strip()))
    return out


def leaf_expansions(g):
    """nonterminal -> list of (rust expr, text) for enumeration-like nonterminals:
    every alternative is one quoted terminal or one enumeration-like nonterminal,
    and no action is fallible."""
    params = grammar_params(g)
    call_args = ', '.join(n for n, _ in params)
    memo = {}

    def expand(nt, stack):
        if nt in memo:
            return memo[nt]
        if nt in stack or nt not in g.by_lhs:
            return None
        res = []
        for p in g.by_lhs[nt]:
            if len(p.syms) != 1:
                return None
            if p.action not in g.sigs or g.sigs[p.action][1].startswith('Result<'):
                return None
            s = p.syms[0]
            if gram.is_terminal(s):
                if s.startswith('r#'):
                    return None
                txt = gram.term_text(s)
                res.append(('__action%d(%s, (0, %s, 0))' % (p.action, call_args, json.dumps(txt)), txt))
            else:
                sub = expand(s, stack | {nt})
                if sub is None:
                    return None
                for (e, txt) in sub:
                    res.append(('{ let __t = %s; __action%d(%s, (0, __t, 0)) }' % (e, p.action, call_args), txt))
        memo[nt] = res
        return res

    out = {}
    for nt in g.by_lhs:
        if re.fullmatch(r'[A-Za-z_][A-Za-z0-9_]*', nt):
            r = expand(nt, frozenset())
            if r:
                out[nt] = r
    return out


# canonical ids for terminal texts that harness oracles need to recognise (registers first)
VOCAB = ['al', 'ah', 'bl', 'bh', 'cl', 'ch', 'dl', 'dh',
         'ax', 'bx', 'cx', 'dx', 'sp', 'bp', 'si', 'di', 'es', 'cs', 'ss', 'ds',
         'add', 'adc', 'sub', 'sbb', 'cmp', 'and', 'or', 'xor', 'test',
         'sal', 'shl', 'shr', 'sar', 'rol', 'ror', 'rcl', 'rcr',
         'dec', 'inc', 'neg', 'mul', 'imul', 'div', 'idiv',
         'jmp', 'ja', 'jae', 'jb', 'jbe', 'jc', 'je', 'jg', 'jge', 'jl', 'jle', 'jnc', 'jne', 'jno', 'jnp',
         'jns', 'jo', 'jp', 'js', 'jcxz', 'loop', 'loope', 'loopne',
         'aaa', 'aad', 'aam', 'aas', 'daa', 'das', 'cbw', 'cwd',
         'lahf', 'sahf', 'pushf', 'popf', 'xlat',
         'stc', 'clc', 'cmc', 'std', 'cld', 'sti', 'cli', 'hlt',
         'movs', 'lods', 'stos', 'cmps', 'scas', 'rep', 'repz', 'repnz', 'byte', 'word',
         'jnbe', 'jnb', 'jnae', 'jna', 'jz', 'jnle', 'jnl', 'jnge', 'jng', 'jnz', 'jpo', 'jpe', 'loopz', 'loopnz', 'repe', 'repne']


def vocab_consts():
    return ''.join('pub const ID_%s: u8 = %d;\n' % (v, i) for i, v in enumerate(VOCAB))


# source spelling -> mnemonic the interpreter must be given (oracle: Intel synonym table; everything
# else must be emitted as its own lower-case spelling)
SYNONYMS = {'shl': 'sal', 'jnbe': 'ja', 'jnb': 'jae', 'jnae': 'jb', 'jna': 'jbe', 'jz': 'je', 'jnle': 'jg', 'jnl': 'jge',
            'jnge': 'jl', 'jng': 'jle', 'jnz': 'jne', 'jpo': 'jnp', 'jpe': 'jp', 'loopz': 'loope', 'loopnz': 'loopne',
            'repe': 'repz', 'repne': 'repnz'}


# mnemonics with the same Intel meaning: the assembler may emit any member of the source spelling's class
CLASSES = [{'ja', 'jnbe'}, {'jae', 'jnb', 'jnc'}, {'jb', 'jnae', 'jc'}, {'jbe', 'jna'}, {'je', 'jz'}, {'jg', 'jnle'}, {'jge', 'jnl'},
           {'jl', 'jnge'}, {'jle', 'jng'}, {'jne', 'jnz'}, {'jnp', 'jpo'}, {'jp', 'jpe'}, {'loope', 'loopz'}, {'loopne', 'loopnz'},
           {'sal', 'shl'}, {'repz', 'repe'}, {'repnz', 'repne'}]


def same_meaning(low):
    for c in CLASSES:
        if low in c:
            return sorted(c)
    return [low]


def spelling_module(g, leaves, params):
    """Generated harness module (assembler side): for every enumeration-like nonterminal that yields a
    String (mnemonic tables, register tables, width keywords) one straight-line harness runs the real
    action for EVERY source spelling and compares the emitted text with the lower-case spelling or its
    Intel synonym; the jump table must in addition emit a mnemonic the interpreter knows.
    The tables are finite and the actions take no other input, so the selector is concrete: one
    symbolic execution covers a table exhaustively (a symbolic selector over heap strings does not
    finish: probe > 400 s)."""
    call_args = ', '.join(n for n, _ in params)
    prop_of = {'quote_jmps_loops': 'c06', 'quote_condition_repeat': 'c07', 'quote_condition_repeat_opcode': 'c07',
               'quote_repeat_opcode': 'c07'}
    L = ['// GENERATED by lib/gen.py (spelling_module)',
         'use crate::{vassert, vassume, vcover, vsym};',
         'use crate::interpreter::interpreter::verif_interp as iv;',
         'fn eq(a: &str, b: &str) -> bool { a.as_bytes() == b.as_bytes() }',
         'fn known_jump(t: &str) -> bool { let mut k = 0; let mut r = false; while k < iv::NT_jumps_condition_N as usize { if eq(t, iv::NT_jumps_condition_TEXT[k]) { r = true; } k += 1; } r }',
         '#[cfg(not(kani))] fn note(nt: &str, src: &str, got: &str, exp: &str) { crate::verif_rt::native::note(format!("{} {:?} -> {:?} (expected {:?})", nt, src, got, exp)); }',
         '#[cfg(kani)] fn note(_nt: &str, _src: &str, _got: &str, _exp: &str) {}']
    names = []
    for nt, alts in sorted(leaves.items()):
        if g.sigs[g.by_lhs[nt][0].action][1] != 'String':
            continue
        prop = prop_of.get(nt, 'c11')
        P = prop.upper()
        chunks = [alts[i:i + 16] for i in range(0, len(alts), 16)]
        for ci, chunk in enumerate(chunks):
            h = '%ss_%s' % (prop, nt) + ('_%d' % ci if len(chunks) > 1 else '')
            names.append(h)
            L.append('#[cfg_attr(kani, kani::proof)]\n#[cfg_attr(kani, kani::unwind(40))]\npub fn %s() {' % h)
            L.append('    let mut ctx = crate::util::preprocessor_util::Context::default();')
            L.append('    let mut out_ = crate::util::preprocessor_util::Output::default();')
            L.append('    let (context, out) = (&mut ctx, &mut out_);')
            L.append('    let input = "";\n    let mut ok = true;\n    let mut known = true;')
            for (expr, text) in chunk:
                low = text.lower()
                exp = SYNONYMS.get(low, low)
                accept = ' || '.join('eq(g.as_str(), %s)' % json.dumps(m) for m in same_meaning(low))
                L.append('    { let g: String = %s; if !(%s) { ok = false; note(%s, %s, g.as_str(), %s); }%s std::mem::forget(g); }'
                         % (expr, accept, json.dumps(nt), json.dumps(text), json.dumps(exp),
                            ' if !known_jump(g.as_str()) { known = false; }' if nt == 'quote_jmps_loops' else ''))
            L.append('    vassert!("%s.spelling.%s.emitted_text", ok);' % (P, nt))
            if nt == 'quote_jmps_loops':
                L.append('    vassert!("C06.spelling.quote_jmps_loops.known_to_interpreter", known);')
            L.append('    vassert!("%s.spelling.%s.no_output", out_.code.len() == 0 && out_.data.len() == 0);' % (P, nt))
            L.append('    std::mem::forget(ctx); std::mem::forget(out_);\n}')
    L.append('pub const TABLE: &[(&str, fn())] = &[%s];' % ', '.join('("%s", %s)' % (n, n) for n in names))
    return '\n'.join(L) + '\n'


def _arg_types(g, p):
    args, ret = g.sigs[p.action]
    tys = []
    for a in args:
        name, ty = a.split(':', 1)
        name = name.strip()
        if name in ('current', 'vm', 'context', 'input', 'counter', 'out'):
            continue
        if name.startswith('__look'):
            return None, ret
        m = re.match(r'^\(usize, (.*), usize\)$', ty.strip())
        if not m:
            return None, ret
        tys.append(m.group(1).strip())
    return tys, ret


def totality_module(g, leaves):
    """Generated C09 harnesses (interpreter): for every nonterminal, ONE harness that calls the action of a
    symbolically chosen alternative with arbitrary argument values OF THE RANGE ITS CHILDREN CAN PRODUCE
    (addresses < 2^20 as C04 guarantees, register values <= 0xFFFF, numbers over their whole type, any
    kernel of the right signature, any register) in an arbitrary machine state and a small symbolic
    context.  Obligations: Kani's implicit checks (overflow, shift distance, division, bounds, unwrap)
    cannot fail, and every returned address is < 2^20."""
    L = ['// GENERATED by lib/gen.py (totality_module)',
         'use crate::{vassert, vassume, vcell, vcover, vsym};',
         'use crate::util::preprocessor_util::Label;',
         '''fn tot_ctx() -> Context {
    let mut ctx = Context::default();
    vsym!(w_ctx_kind: u8);
    vsym!(w_ctx_map: u16);
    vsym!(w_ctx_fn: bool);
    vsym!(w_ctx_fnpos: u16);
    vsym!(w_ctx_depth: u8);
    vsym!(w_ctx_ret: u16);
    match w_ctx_kind % 3 {
        1 => { ctx.label_map.insert("v".to_owned(), Label::new(LabelType::DATA, 0, w_ctx_map as usize)); }
        2 => { ctx.label_map.insert("v".to_owned(), Label::new(LabelType::CODE, 0, w_ctx_map as usize)); }
        _ => {}
    }
    if w_ctx_fn { ctx.fn_map.insert("v".to_owned(), w_ctx_fnpos as usize); }
    ctx.call_stack.reserve(4);
    if w_ctx_depth % 3 >= 1 { ctx.call_stack.push(w_ctx_ret as usize); }
    if w_ctx_depth % 3 >= 2 { ctx.call_stack.push(3); }
    ctx
}
fn any_name() -> String { vsym!(w_name_known: bool); if w_name_known { "v".to_owned() } else { "w".to_owned() } }
fn any_state() -> State { vsym!(w_state: u8); vsym!(w_state_n: u16); match w_state % 6 { 0 => State::HALT, 1 => State::PRINT, 2 => State::JMP(w_state_n as usize), 3 => State::NEXT, 4 => State::INT(w_state_n as u8), _ => State::REPEAT } }
fn any_wordreg(vm: &mut VM, ctx: &mut Context) -> WordReg { vsym!(w_anyreg: u8); let k = w_anyreg % (NT_word_reg_N + NT_seg_reg_N); if k < NT_word_reg_N { nt_word_reg(k, CUR, vm, ctx) } else { nt_seg_reg(k - NT_word_reg_N, CUR, vm, ctx) } }
fn any_bytereg(vm: &mut VM, ctx: &mut Context) -> ByteReg { vsym!(w_anybreg: u8); nt_byte_reg(w_anybreg % NT_byte_reg_N, CUR, vm, ctx) }
fn any_bop8(vm: &mut VM, ctx: &mut Context) -> ByteOpBinary { vsym!(w_bop8: u8); let k = w_bop8 % (NT_byte_binary_arithmetic_N + NT_byte_binary_logical_N + NT_byte_shift_rotate_N);
    if k < NT_byte_binary_arithmetic_N { nt_byte_binary_arithmetic(k, CUR, vm, ctx) } else if k < NT_byte_binary_arithmetic_N + NT_byte_binary_logical_N { nt_byte_binary_logical(k - NT_byte_binary_arithmetic_N, CUR, vm, ctx) } else { nt_byte_shift_rotate(k - NT_byte_binary_arithmetic_N - NT_byte_binary_logical_N, CUR, vm, ctx) } }
fn any_bop16(vm: &mut VM, ctx: &mut Context) -> WordOpBinary { vsym!(w_bop16: u8); let k = w_bop16 % (NT_word_binary_arithmetic_N + NT_word_binary_logical_N + NT_word_shift_rotate_N);
    if k < NT_word_binary_arithmetic_N { nt_word_binary_arithmetic(k, CUR, vm, ctx) } else if k < NT_word_binary_arithmetic_N + NT_word_binary_logical_N { nt_word_binary_logical(k - NT_word_binary_arithmetic_N, CUR, vm, ctx) } else { nt_word_shift_rotate(k - NT_word_binary_arithmetic_N - NT_word_binary_logical_N, CUR, vm, ctx) } }
fn any_uop8(vm: &mut VM, ctx: &mut Context) -> ByteOpUnary { vsym!(w_uop8: u8); nt_byte_unary_arithmetic(w_uop8 % NT_byte_unary_arithmetic_N, CUR, vm, ctx) }
fn any_uop16(vm: &mut VM, ctx: &mut Context) -> WordOpUnary { vsym!(w_uop16: u8); nt_word_unary_arithmetic(w_uop16 % NT_word_unary_arithmetic_N, CUR, vm, ctx) }
fn any_sop() -> StringOp { vsym!(w_sop: u8); let t: [StringOp; 10] = [movs_byte, movs_word, loads_byte, loads_word, stos_byte, stos_word, cmps_byte, cmps_word, scas_byte, scas_word]; t[(w_sop % 10) as usize] }
''']
    ADDR_SYMS = ('memory_addr', 'byte_label', 'word_label', 'base_reg_addr', 'base_index_reg_addr')
    names = []
    for lhs in sorted(g.by_lhs):
        if not re.fullmatch(r'[A-Za-z_][A-Za-z0-9_]*', lhs):
            continue
        arms = []
        for p in g.by_lhs[lhs]:
            tys, ret = _arg_types(g, p)
            if tys is None or len(tys) != len(p.syms):
                continue
            pre, argv, ok = [], [], True
            for i, (sym, ty) in enumerate(zip(p.syms, tys)):
                v = 'a%d' % i
                if gram.is_terminal(sym):
                    if sym.startswith('r#'):
                        ok = False
                        break
                    argv.append('(0, %s, 0)' % json.dumps(gram.term_text(sym)))
                    continue
                ty = ty.replace("'input ", '')
                if ty == 'usize':
                    pre.append('vsym!(w_a%d: usize);' % i)
                    mod = 'MBU' if sym in ADDR_SYMS else '0x10000'
                    pre.append('let %s: usize = w_a%d %% %s;' % (v, i, mod))
                elif ty in ('u8', 'i8', 'u16', 'i16') or (ty == 'bool' and sym not in leaves):
                    pre.append('vsym!(w_a%d: %s); let %s = w_a%d;' % (i, ty, v, i))
                elif ty == 'u32':
                    pre.append('vsym!(w_a%d: u32); let %s = w_a%d %% MB;' % (i, v, i))
                elif ty == '(u16, u16)' or ty == '(u16,u16)':
                    pre.append('vsym!(w_a%dx: u16); vsym!(w_a%dy: u16); let %s = (w_a%dx, w_a%dy);' % (i, i, v, i, i))
                elif sym in leaves and ty in ('ByteOpBinary', 'WordOpBinary', 'ByteOpUnary', 'WordOpUnary', 'ByteReg', 'WordReg', 'bool'):
                    # the child is an enumeration nonterminal: exactly its alternatives
                    pre.append('vsym!(w_a%d: u8); let %s = nt_%s(w_a%d %% NT_%s_N, CUR, vm, ctx);' % (i, v, sym, i, sym))
                elif ty == 'ByteReg':
                    pre.append('let %s = any_bytereg(vm, ctx);' % v)
                elif ty == 'WordReg':
                    pre.append('let %s = any_wordreg(vm, ctx);' % v)
                elif ty == 'ByteOpBinary':
                    pre.append('let %s = any_bop8(vm, ctx);' % v)
                elif ty == 'WordOpBinary':
                    pre.append('let %s = any_bop16(vm, ctx);' % v)
                elif ty == 'ByteOpUnary':
                    pre.append('let %s = any_uop8(vm, ctx);' % v)
                elif ty == 'WordOpUnary':
                    pre.append('let %s = any_uop16(vm, ctx);' % v)
                elif ty == 'StringOp':
                    pre.append('let %s = any_sop();' % v)
                elif ty == 'String':
                    pre.append('let %s = any_name();' % v)
                elif ty == 'State':
                    pre.append('let %s = any_state();' % v)
                elif ty == '()':
                    pre.append('let %s = ();' % v)
                elif ty.replace(' ', '') == "core::option::Option<(WordReg,&str)>":
                    pre.append('vsym!(w_a%d: bool); let %s = if w_a%d { Some((any_wordreg(vm, ctx), ":")) } else { None };' % (i, v, i))
                elif ty.replace(' ', '') == "(WordReg,&str)":
                    pre.append('let %s = (any_wordreg(vm, ctx), ":");' % v)
                else:
                    ok = False
                    break
                argv.append('(0, %s, 0)' % v)
            if not ok:
                continue
            post = ''
            if lhs in ADDR_SYMS:
                if ret.startswith('Result<'):
                    post = 'if let Ok(m) = &r { vassert!("C09.%s.address_in_range", *m < MBU); }' % lhs
                else:
                    post = 'vassert!("C09.%s.address_in_range", r < MBU);' % lhs
            arms.append('{ %s let r = __action%d(CUR, vm, ctx, ""%s); %s std::mem::forget(r); }'
                        % (' '.join(pre), p.action, ''.join(', ' + a for a in argv), post))
        if not arms:
            continue
        size = 4 if len(arms) > 6 else len(arms)
        if any('unary_arithmetic' in a for a in arms):
            size = 1   # mul/div kernels under a symbolic operand register: one production per query
        chunks = [arms[i:i + size] for i in range(0, len(arms), size)]
        for ci, chunk in enumerate(chunks):
            h = 'c09g_' + lhs + ('_%d' % ci if len(chunks) > 1 else '')
            names.append(h)
            L.append('#[cfg_attr(kani, kani::proof)]\n#[cfg_attr(kani, kani::unwind(6))]\n#[cfg_attr(kani, kani::stub(alloc::fmt::format, crate::verif_rt::fmt_stub))]\npub fn %s() {' % h)
            L.append('    let mut vm_ = mk_vm();\n    let mut ctx_ = tot_ctx();\n    let (vm, ctx) = (&mut vm_, &mut ctx_);')
            L.append('    vsym!(w_alt: u8);\n    vassume!((w_alt as usize) < %d);' % len(chunk))
            L.append('    match w_alt {')
            for i, a in enumerate(chunk):
                L.append('        %s => %s' % (str(i) if i < len(chunk) - 1 else '_', a))
            L.append('    }')
            L.append('    vcover!("C09.%s.cover.last_alternative", w_alt as usize == %d);' % (lhs, len(chunk) - 1))
            L.append('    vassert!("C09.%s.machine_still_valid", regs(vm).flag == regs(vm).flag);' % lhs)
            L.append('    std::mem::forget(ctx_);\n    done(vm_);\n}')
    L.append('pub const TABLE: &[(&str, fn())] = &[%s];' % ', '.join('("%s", %s)' % (n, n) for n in names))
    return '\n'.join(L) + '\n'


def sentence_expansions(g, nt, leaves, depth=0, memo=None):
    """every derivation of `nt` whose productions consist of quoted terminals and (recursively) such
    nonterminals, with non-fallible actions: list of (rust statements, result variable, tokens).
    The statements evaluate the actions bottom-up, children before parent, left to right -- the order
    in which the LR parser reduces them.  Used for sentence-driven harnesses that follow the grammar
    even when productions are split, merged or renamed."""
    memo = memo if memo is not None else {}
    if nt in memo:
        return memo[nt]
    if depth > 6 or nt not in g.by_lhs:
        return None
    params = grammar_params(g)
    call_args = ', '.join(n for n, _ in params)
    out = []
    for p in g.by_lhs[nt]:
        if p.action not in g.sigs or g.sigs[p.action][1].startswith('Result<'):
            return None
        parts = []
        for s in p.syms:
            if gram.is_terminal(s):
                if s.startswith('r#'):
                    return None
                parts.append([('', json.dumps(gram.term_text(s)), [gram.term_text(s)])])
            else:
                sub = sentence_expansions(g, s, leaves, depth + 1, memo)
                if sub is None:
                    return None
                parts.append(sub)
        import itertools
        for combo in itertools.product(*parts):
            stmts, args, toks = '', [], []
            for k, (st, var, tk) in enumerate(combo):
                stmts += st
                args.append('(0, %s, 0)' % var)
                toks += tk
            v = '__v%d_%d' % (p.action, len(out))
            stmts += 'let %s = __action%d(%s%s);\n' % (v, p.action, call_args, ''.join(', ' + a for a in args))
            out.append((stmts, v, toks))
    memo[nt] = out
    return out


def string_sentence_module(g, leaves):
    """C07, sentence-driven: every sentence of the `string` nonterminal ([rep|repz|repnz] mnemonic width), as
    the CURRENT grammar derives it, is evaluated bottom-up and re-evaluated while it yields REPEAT; the
    number of executed iterations is read off the index registers.  Oracle per sentence (from its words):
    no prefix: one iteration; rep: exactly CX iterations, CX ends 0; repz / repnz: CX decremented once per
    iteration, stops early only with ZF=0 / ZF=1 after at least one iteration, never runs with CX=0."""
    exps = sentence_expansions(g, 'string', leaves)
    if not exps:
        return None
    L = ['// GENERATED by lib/gen.py (string_sentence_module)', 'use crate::{vassert, vassume, vcell, vcover, vsym};']
    rows = []
    for (st, var, toks) in exps:
        pre = {'rep': 1, 'repz': 2, 'repnz': 3}.get(toks[0], 0)
        words = toks[1:] if pre else toks
        if len(words) != 2 or words[0] not in ('movs', 'lods', 'stos', 'cmps', 'scas') or words[1] not in ('byte', 'word'):
            return None
        rows.append((st, var, pre, words[0], 2 if words[1] == 'word' else 1, ' '.join(toks)))
    n = len(rows)
    L.append('const SN: usize = %d;' % n)
    L.append('const S_PREFIX: [u8; %d] = [%s];' % (n, ', '.join(str(r[2]) for r in rows)))
    L.append('const S_USES_SI: [bool; %d] = [%s];' % (n, ', '.join('true' if r[3] in ('movs', 'lods', 'cmps') else 'false' for r in rows)))
    L.append('const S_SIZE: [u16; %d] = [%s];' % (n, ', '.join(str(r[4]) for r in rows)))
    L.append('const S_TEXT: [&str; %d] = [%s];' % (n, ', '.join(json.dumps(r[5]) for r in rows)))
    L.append('fn eval_sentence(sel: usize, current: usize, vm: &mut VM, context: &mut Context) -> State {\n    let input = "";\n    match sel {')
    for i, r in enumerate(rows):
        L.append('        %s => { %s %s }' % (str(i) if i < n - 1 else '_', r[0].replace('\n', ' '), r[1]))
    L.append('    }\n}')
    L.append('''// one harness per sentence (the sentence is concrete, the machine state symbolic): a symbolic
// choice among the 40 sentences with up to 5 rounds each does not finish (probe: > 600 s)
fn sentences(bound: u16, w_sel: usize) {
    let mut vm = mk_vm();
    let mut ctx = mk_ctx();
    let pre = regs(&vm);
    vassume!(pre.cx <= bound);
    let prefix = S_PREFIX[w_sel];
    let size = S_SIZE[w_sel];
    let df = pre.flag & 0x400 != 0;
    let mut rounds: u16 = 0;
    let mut st = State::REPEAT;
    while st == State::REPEAT && rounds < bound + 2 {
        st = eval_sentence(w_sel, CUR, &mut vm, &mut ctx);
        rounds += 1;
    }
    let post = regs(&vm);
    // iterations executed, read off the index register the instruction steps
    let (a, b) = if S_USES_SI[w_sel] { (pre.si, post.si) } else { (pre.di, post.di) };
    let delta = if df { a.wrapping_sub(b) } else { b.wrapping_sub(a) };
    let n = delta / size;
    let zf = post.flag & 0x40 != 0;
    vassert!("C07d.sentence.completes_with_next", st == State::NEXT);
    vassert!("C07d.sentence.whole_steps", delta % size == 0);
    match prefix {
        0 => {
            vassert!("C07d.sentence.plain_runs_once", n == 1 && post.cx == pre.cx);
        }
        1 => {
            vassert!("C07d.sentence.rep_runs_cx_times", n == pre.cx && post.cx == 0);
        }
        _ => {
            let early = if prefix == 2 { !zf } else { zf };
            vassert!("C07d.sentence.repcc_count", n <= pre.cx && post.cx == pre.cx - n && (pre.cx == 0 || n >= 1) && (n == pre.cx || early));
        }
    }
    vcover!("C07d.sentence.cover.full_count", prefix == 0 || (pre.cx == bound && n == bound));
    vcover!("C07d.sentence.cover.early_exit", prefix < 2 || (pre.cx == bound && n == 1));
    #[cfg(not(kani))]
    {
        crate::verif_rt::native::note(format!("sentence {}", S_TEXT[w_sel]));
    }
    done_ctx(ctx);
    done(vm);
}
''')
    names = []
    for i, r in enumerate(rows):
        nm = 'c07d_' + re.sub(r'[^a-z0-9]+', '_', r[5])
        names.append(nm + '__q')
        L.append('#[cfg_attr(kani, kani::proof)]\n#[cfg_attr(kani, kani::unwind(7))]\npub fn %s__q() { sentences(3, %d); }' % (nm, i))
        if r[2]:
            names.append(nm + '__t')
            L.append('#[cfg_attr(kani, kani::proof)]\n#[cfg_attr(kani, kani::unwind(10))]\npub fn %s__t() { sentences(6, %d); }' % (nm, i))
    L.append('pub const TABLE: &[(&str, fn())] = &[%s];' % ', '.join('("%s", %s)' % (n, n) for n in names))
    return '\n'.join(L) + '\n'


def make_shim(g, point):
    params = grammar_params(g)
    lines = ['// GENERATED by /verif/lib/gen.py from %s -- do not edit' % os.path.basename(g.path),
             '#![allow(dead_code, unused_imports, unused_variables, non_snake_case, non_upper_case_globals)]',
             'use super::*;',
             'use crate::verif_rt::*;' if point != 'print' else 'use emulator_8086_lib::verif_rt::*;',
             '']
    for p in g.prods:
        lines.append('use super::__action%d as %s;' % (p.action, p.name))
    lines.append('')
    lines.append(vocab_consts())
    sig_params = ', '.join('%s: %s' % (n, strip_lifetimes(t)) for n, t in params if n != 'input')
    leaves = leaf_expansions(g)
    for nt, alts in sorted(leaves.items()):
        ret = strip_lifetimes(g.sigs[g.by_lhs[nt][0].action][1])
        lines.append('pub const NT_%s_N: u8 = %d;' % (nt, len(alts)))
        lines.append('pub const NT_%s_TEXT: [&str; %d] = [%s];' % (nt, len(alts), ', '.join(json.dumps(t) for _, t in alts)))
        lines.append('pub const NT_%s_ID: [u8; %d] = [%s];' % (nt, len(alts), ', '.join(str(VOCAB.index(t.lower())) if t.lower() in VOCAB else '255' for _, t in alts)))
        lines.append('pub fn nt_%s(sel: u8, %s) -> %s {' % (nt, sig_params, ret))
        lines.append('    let input = "";')
        lines.append('    match sel {')
        for i, (e, _) in enumerate(alts[:-1]):
            lines.append('        %d => %s,' % (i, e))
        lines.append('        _ => %s,' % alts[-1][0])
        lines.append('    }')
        lines.append('}')
    return '\n'.join(lines) + '\n', leaves


def harness_files():
    return sorted(glob.glob(os.path.join(HARNESS, '*.rs')))


def table_names(path):
    """harness names registered in a file's TABLE (for reporting)."""
    txt = open(path).read()
    m = re.search(r'pub const TABLE[^=]*=\s*&\[(.*?)\];', txt, re.S)
    if not m:
        return []
    return re.findall(r'\("(\w+)"', m.group(1))


def filter_harness(src_path, defined, dst_path):
    """A harness that names a production / dispatcher the regenerated grammar no longer has cannot be
    compiled.  Instead of losing every check to one refactored production, such harnesses are left out
    (and reported: the property that needs them becomes inconclusive).  Top-level macro instantiations
    are dropped individually, otherwise the whole file.
    returns (path to include, {harness name: [missing identifiers]})"""
    txt = open(src_path).read()
    need = lambda t: sorted(set(x for x in re.findall(r'(?<![$\w])(?:p_[A-Za-z0-9_]+|nt_[A-Za-z0-9_]+|NT_[A-Za-z0-9_]+)\b', re.sub(r'//[^\n]*', '', t)) if x not in defined))
    if not need(txt):
        return src_path, {}
    skipped = {}
    items = list(re.finditer(r'(?ms)^([a-z_0-9]+)!\((\w+),.*?\);\n', txt))
    out = txt
    for m in items:
        miss = need(m.group(0))
        if miss:
            out = out.replace(m.group(0), '// [not attached: %s]\n' % ', '.join(miss))
            skipped[m.group(2)] = miss
            out = re.sub(r'(?m)^\s*\("%s", %s\),\n' % (m.group(2), m.group(2)), '', out)
            if m.group(1) in ('binop8', 'binop16', 'frame_only', 'frame_only_un'):
                pass
    if need(out):
        # something hand-written refers to a missing name: leave the whole file out
        names = table_names(src_path)
        return None, {n: need(txt) for n in names} or {os.path.basename(src_path): need(txt)}
    with open(dst_path, 'w') as f:
        f.write(out)
    return dst_path, skipped


def append_once(path, line):
    txt = open(path).read()
    if line not in txt:
        with open(path, 'a') as f:
            f.write('\n' + line + '\n')


def attach(tree, kf_active):
    """modify the scratch tree; returns info dict (grammars, leaves, harness index)."""
    info = {'grammars': {}, 'harness_files': {}, 'leaves': {}, 'skipped': {}}
    lib = os.path.join(tree, 'src/lib')
    # runtime + containers
    for name in ('rt', 'map'):
        src = os.path.join(HARNESS, name + '.rs')
        with open(os.path.join(lib, 'verif_%s.rs' % name), 'w') as f:
            f.write(open(src).read())
    # HashMap / HashSet replacement (Kani build only)
    for rel in ('util/interpreter_util.rs', 'util/preprocessor_util.rs'):
        p = os.path.join(lib, rel)
        txt = open(p).read()
        txt2 = re.sub(r'^use std::collections::(\{[^}]*\}|\w+);',
                      lambda m: '#[cfg(not(kani))]\n' + m.group(0) + '\n#[cfg(kani)]\nuse crate::verif_map::' + m.group(1) + ';',
                      txt, count=1, flags=re.M)
        if txt2 == txt and 'verif_map' not in txt and 'std::collections' in txt:
            raise SystemExit('INCONCLUSIVE: cannot locate std::collections import in %s' % rel)
        open(p, 'w').write(txt2)

    files = [f for f in harness_files() if os.path.basename(f) not in ('rt.rs', 'map.rs', 'io.rs', 'drv.rs')]
    by_point = {}
    for f in files:
        stem = os.path.basename(f)[:-3]
        prefix = stem.split('_', 1)[0]
        by_point.setdefault(prefix, []).append((stem, f))

    table_entries = []   # (crate, rust path of TABLE)
    # crate-level lib harness modules
    lib_decl = ['%s #[path = "verif_rt.rs"] #[macro_use] pub mod verif_rt;' % CFG,
                '%s #[path = "verif_map.rs"] pub mod verif_map;' % CFG,
                '%s #[path = "verif_gen.rs"] pub mod verif_gen;' % CFG]
    for stem, f in by_point.get('lib', []):
        with open(os.path.join(lib, 'verif_%s.rs' % stem), 'w') as out:
            out.write(open(f).read())
        lib_decl.append('%s #[path = "verif_%s.rs"] pub mod verif_%s;' % (CFG, stem, stem))
        table_entries.append(('lib', 'crate::verif_%s::TABLE' % stem))
        info['harness_files'][stem] = table_names(f)
    for l in lib_decl:
        append_once(os.path.join(lib, 'lib.rs'), l)

    # ---- binary crate: console boundary (ghost log, stdin stub)
    drv = os.path.join(tree, 'src/driver')
    with open(os.path.join(drv, 'verif_io.rs'), 'w') as f:
        f.write(open(os.path.join(HARNESS, 'io.rs')).read())
    append_once(os.path.join(drv, 'mod.rs'), '%s pub mod verif_io;' % CFG)
    append_once(os.path.join(drv, 'mod.rs'), '%s pub mod verif_bin_gen;' % CFG)
    insert_after_header(os.path.join(drv, 'print.rs'), PRINT_SHADOW)
    insert_after_header(os.path.join(drv, 'interrupts.rs'), PRINT_SHADOW)
    ip = os.path.join(drv, 'interrupts.rs')
    isrc = open(ip).read()
    n_stdin = isrc.count('std::io::stdin().read_line(')
    isrc = isrc.replace('std::io::stdin().read_line(', 'crate::driver::verif_io::read_line(')
    open(ip, 'w').write(isrc)
    info['stdin_calls_stubbed'] = n_stdin
    make_driver_copies(tree, info)
    bp = os.path.join(tree, 'src/bin.rs')
    bsrc = open(bp).read()
    if 'verif_bin_gen' not in bsrc:
        bsrc = bsrc.replace('fn main() {', 'fn main() {\n    #[cfg(verif_native)]\n    {\n        let a: Vec<String> = std::env::args().collect();\n        if a.len() > 1 && a[1] == "--verif-replay" {\n            emulator_8086_lib::verif_rt::native::replay_cli(driver::verif_bin_gen::table(), a[1..].to_vec());\n            return;\n        }\n    }', 1)
        open(bp, 'w').write(bsrc)

    for point, (crate, rel, modpath) in POINTS.items():
        target = os.path.join(tree, rel)
        if not os.path.exists(target):
            raise SystemExit('INCONCLUSIVE: %s no longer exists in the tree' % rel)
        modname = modpath.rsplit('::', 1)[1]
        body = []
        if point in PARSER_POINTS:
            g = gram.Grammar(target)
            shim, leaves = make_shim(g, point)
            info['grammars'][point] = g
            info['leaves'][point] = leaves
            body.append(shim)
        else:
            body.append('#![allow(dead_code, unused_imports, unused_variables)]\nuse super::*;\n'
                        + ('use crate::verif_rt::*;\n' if crate == 'lib' else 'use emulator_8086_lib::verif_rt::*;\n'))
        # library modules <point>_a?_*: imported into every module that sorts after them
        if point == 'prep':
            genf = os.path.join(os.path.dirname(target), 'verif_prep_spellgen.rs')
            with open(genf, 'w') as gf:
                gf.write(spelling_module(g, leaves, grammar_params(g)))
            by_point.setdefault(point, []).append(('prep_zz_spellgen', genf))
        if point == 'interp':
            sm = string_sentence_module(g, leaves)
            if sm:
                genf2 = os.path.join(os.path.dirname(target), 'verif_interp_stringgen.rs')
                with open(genf2, 'w') as gf:
                    gf.write(sm)
                by_point.setdefault(point, []).append(('interp_zy_stringgen', genf2))
            else:
                info['skipped']['c07d_sentences__q'] = ['the `string` nonterminal no longer expands to [prefix] mnemonic width sentences']
            genf = os.path.join(os.path.dirname(target), 'verif_interp_totalgen.rs')
            with open(genf, 'w') as gf:
                gf.write(totality_module(g, leaves))
            by_point.setdefault(point, []).append(('interp_zz_totalgen', genf))
        libs = [st for st, _ in by_point.get(point, []) if re.match(r'^%s_a[a-z]_' % point, st)]
        defined = set()
        if point in PARSER_POINTS:
            defined = set(re.findall(r'\b(?:p_[A-Za-z0-9_]+|nt_[A-Za-z0-9_]+|NT_[A-Za-z0-9_]+)\b', body[0]))
        for stem, f in by_point.get(point, []):
            inc = f
            if point in PARSER_POINTS and not os.path.basename(f).startswith('verif_'):
                # names defined by library modules of this point (macros etc.) are not grammar names
                inc, skipped = filter_harness(f, defined, os.path.join(os.path.dirname(target), 'verif_filtered_%s.rs' % stem))
                if skipped:
                    info['skipped'].update(skipped)
                if inc is None:
                    continue
            extra = ''.join('    use super::%s::*;\n' % l for l in libs if l < stem)
            body.append('#[macro_use]\npub mod %s {\n    #![allow(dead_code, unused_imports, unused_variables, unused_mut, non_upper_case_globals, unused_macros)]\n    use super::*;\n%s    include!(%s);\n}\n' % (stem, extra, json.dumps(inc)))
            table_entries.append((crate, '%s::%s::TABLE' % (modpath, stem)))
            info['harness_files'][stem] = table_names(inc)
        modfile = os.path.join(os.path.dirname(target), modname + '.rs')
        with open(modfile, 'w') as out:
            out.write('\n'.join(body))
        append_once(target, '%s #[path = %s] pub mod %s;' % (CFG, json.dumps(modfile), modname))

    # verif_gen.rs (lib crate): known-finding list + harness table
    with open(os.path.join(lib, 'verif_gen.rs'), 'w') as out:
        out.write('// GENERATED\n')
        used = set(['KF_NONE'])
        for hf in harness_files():
            used.update(re.findall(r'\bKF_[A-Za-z0-9_]+\b', open(hf).read()))
        active = set(k.replace('-', '_') for k in kf_active)
        for ident in sorted(used | active):
            out.write('pub const %s: bool = %s;\n' % (ident, 'true' if ident in active else 'false'))
        out.write('#[cfg(not(kani))]\npub fn table() -> Vec<(&\'static str, fn())> {\n    let mut v: Vec<(&\'static str, fn())> = Vec::new();\n')
        for crate, t in table_entries:
            if crate == 'lib':
                out.write('    v.extend_from_slice(%s);\n' % t)
        out.write('    v\n}\n')
    # native replay driver for the lib crate
    os.makedirs(os.path.join(tree, 'examples'), exist_ok=True)
    with open(os.path.join(tree, 'examples', 'verif_replay.rs'), 'w') as out:
        out.write(open(os.path.join(VERIF, 'lib', 'replay_main.rs')).read())
    with open(os.path.join(tree, 'examples', 'verif_e2.rs'), 'w') as out:
        out.write(open(os.path.join(VERIF, 'lib', 'e2_tool.rs')).read())
    with open(os.path.join(drv, 'verif_bin_gen.rs'), 'w') as out:
        out.write('// GENERATED\n#[cfg(not(kani))]\npub fn table() -> Vec<(&\'static str, fn())> {\n    let mut v: Vec<(&\'static str, fn())> = Vec::new();\n')
        for crate, t in table_entries:
            if crate == 'bin':
                out.write('    v.extend_from_slice(%s);\n' % t)
        out.write('    v\n}\n')
    info['bin_tables'] = [t for c, t in table_entries if c == 'bin']
    return info


if __name__ == '__main__':
    inf = attach(sys.argv[1], set())
    for k, g in inf['grammars'].items():
        print(k, len(g.prods), 'productions;', len(inf['leaves'][k]), 'enumeration nonterminals')
