// Native replay driver (E3) for the library crate's harnesses; the logic is verif_rt::native::replay_cli.
//   verif_replay run <harness> <witness-file> | random <harness> <seed> <count> | list
fn main() {
    emulator_8086_lib::verif_rt::native::replay_cli(emulator_8086_lib::verif_gen::table(), std::env::args().collect());
}
