// Native replay driver (E3): runs a harness body on concrete inputs against the real code.
//   verif_replay run <harness> <witness-file>
//   verif_replay random <harness> <seed> <count>
//   verif_replay list
use emulator_8086_lib::verif_gen::table;
use emulator_8086_lib::verif_rt::native as rt;
use std::panic;

fn run_one(f: fn()) -> Option<String> {
    let r = panic::catch_unwind(panic::AssertUnwindSafe(|| f()));
    match r {
        Ok(_) => None,
        Err(e) => {
            let msg = if let Some(s) = e.downcast_ref::<&str>() {
                s.to_string()
            } else if let Some(s) = e.downcast_ref::<String>() {
                s.clone()
            } else {
                "panic".to_string()
            };
            Some(msg)
        }
    }
}

fn report(panic_msg: Option<String>) -> bool {
    let mut bad = false;
    rt::FAILS.with(|f| {
        for l in f.borrow().iter() {
            println!("FAIL {}", l);
            bad = true;
        }
    });
    rt::ASSUME_FAILED.with(|f| {
        for l in f.borrow().iter() {
            println!("ASSUME {}", l);
        }
    });
    rt::MISSING.with(|f| {
        for l in f.borrow().iter() {
            println!("MISSING {}", l);
        }
    });
    rt::COVERS.with(|f| {
        for l in f.borrow().iter() {
            println!("COVER {}", l);
        }
    });
    rt::NOTES.with(|f| {
        for l in f.borrow().iter() {
            println!("NOTE {}", l.replace('\n', "\\n"));
        }
    });
    if let Some(m) = panic_msg {
        println!("PANIC {}", m.replace('\n', "\\n"));
        bad = true;
    }
    bad
}

fn dump_wit() {
    rt::WIT.with(|w| {
        for (k, v) in w.borrow().iter() {
            println!("WIT {}={}", k, v);
        }
    });
}

fn main() {
    panic::set_hook(Box::new(|_| {}));
    let args: Vec<String> = std::env::args().collect();
    let t = table();
    if args.len() >= 2 && args[1] == "list" {
        for (n, _) in t.iter() {
            println!("{}", n);
        }
        return;
    }
    if args.len() < 4 {
        eprintln!("usage");
        std::process::exit(2);
    }
    let f = match t.iter().find(|(n, _)| *n == args[2]) {
        Some((_, f)) => *f,
        None => {
            println!("NOHARNESS {}", args[2]);
            std::process::exit(2);
        }
    };
    if args[1] == "run" {
        rt::reset();
        let txt = std::fs::read_to_string(&args[3]).unwrap();
        for line in txt.lines() {
            if let Some((k, v)) = line.split_once('=') {
                if let Ok(v) = v.trim().parse::<i128>() {
                    rt::set(k.trim(), v);
                }
            }
        }
        let p = run_one(f);
        report(p);
        println!("END");
    } else if args[1] == "random" {
        let seed: u64 = args[3].parse().unwrap();
        let n: u64 = args[4].parse().unwrap();
        let mut ran = 0u64;
        let mut skipped = 0u64;
        let mut bad_runs = 0u64;
        rt::RANDOM_MISSING.with(|r| *r.borrow_mut() = true);
        for i in 0..n {
            rt::reset();
            rt::seed(seed.wrapping_mul(0x100000001B3).wrapping_add(i));
            rt::set("bg", ((i % 3) + 2) as i128);
            let p = run_one(f);
            let assumed = rt::ASSUME_FAILED.with(|f| !f.borrow().is_empty());
            if assumed && p.is_none() {
                skipped += 1;
                continue;
            }
            ran += 1;
            let bad = rt::FAILS.with(|f| !f.borrow().is_empty()) || p.is_some();
            if bad {
                bad_runs += 1;
                if bad_runs <= 3 {
                    println!("CASE {}", i);
                    report(p);
                    dump_wit();
                }
            }
        }
        println!("RANDOM ran={} skipped={} bad={}", ran, skipped, bad_runs);
        println!("END");
    }
}
