"""Grammar extraction from LALRPOP-generated parser files.

LALRPOP documents the grammar it actually built (after macro / optional expansion) as
comments `// lhs = sym, sym, ... => ActionFn(N);` in the generated .rs file, and emits one
`fn __actionN(...) -> T` per alternative.  Everything the framework knows about the four
grammars is read back from those files in the scratch copy of /repo's working tree.
"""
import re

PROD_RE = re.compile(r'^\s*// (.+?) = (.*?) => ActionFn\((\d+)\);\s*$')
FN_RE = re.compile(r'^fn __action(\d+)<')


def split_syms(rhs):
    """split 'a, ",", r#"[0-9]+"#, (x ":")?' into symbols (commas inside quotes kept)."""
    out, cur, i, n = [], '', 0, len(rhs)
    while i < n:
        c = rhs[i]
        if c == '"':
            j = i + 1
            while j < n and rhs[j] != '"':
                j += 2 if rhs[j] == '\\' else 1
            cur += rhs[i:j + 1]
            i = j + 1
        elif rhs.startswith('r#"', i):
            j = rhs.index('"#', i + 3)
            cur += rhs[i:j + 2]
            i = j + 2
        elif c == ',':
            out.append(cur.strip())
            cur = ''
            i += 1
        else:
            cur += c
            i += 1
    if cur.strip():
        out.append(cur.strip())
    return out


_NAMES = {',': 'COMMA', ':': 'COLON', '[': 'LB', ']': 'RB', '(': 'LP', ')': 'RP', '->': 'ARROW',
          '{': 'LBRACE', '}': 'RBRACE', '<-': 'BACKARROW'}
_RE_NAMES = {
    '[0-9]+': 'RE_NUM', '-[0-9]+': 'RE_NEG', '[_a-zA-Z][_a-zA-Z0-9]*': 'RE_NAME',
    '0(x|X)[0-9A-Fa-f]+': 'RE_HEX', '0(b|B)[0-1]+': 'RE_BIN', '[_a-zA-Z][_a-zA-Z0-9]*:': 'RE_LABEL',
    '"[[:ascii:]]*"': 'RE_ASTR', '"[[:print:]]*"': 'RE_PSTR',
    '\\"[[:ascii:]]*\\"': 'RE_ASTR', '\\"[[:print:]]*\\"': 'RE_PSTR',
    '[_a-zA-Z0-9\\[\\]\\(\\), ]*<-': 'RE_MACROBODY',
}


def is_terminal(sym):
    return sym.startswith('"') or sym.startswith('r#"')


def term_text(sym):
    if sym.startswith('r#"'):
        return sym[3:-2]
    return sym[1:-1]


def mangle_sym(sym):
    if sym.startswith('r#"'):
        body = sym[3:-2]
        return _RE_NAMES.get(body, 'RE_' + re.sub(r'[^A-Za-z0-9]', '_', body))
    if sym.startswith('"'):
        t = sym[1:-1]
        if t in _NAMES:
            return _NAMES[t]
        if re.fullmatch(r'[A-Za-z0-9_]+', t):
            return 'T_' + t
        return 'T_' + ''.join('%02x' % ord(c) for c in t)
    s = sym
    s = s.replace('?', '_OPT').replace('*', '_STAR').replace('+', '_PLUS')
    s = s.replace('":"', 'COLON').replace('","', 'COMMA')
    s = re.sub(r'[^A-Za-z0-9_]', '_', s)
    return s


class Production:
    def __init__(self, lhs, syms, action):
        self.lhs, self.syms, self.action = lhs, syms, action

    @property
    def name(self):
        return 'p_' + mangle_sym(self.lhs) + '__' + ('__'.join(mangle_sym(s) for s in self.syms) if self.syms else 'EMPTY')

    def __repr__(self):
        return '%s = %s => %d' % (self.lhs, ', '.join(self.syms), self.action)


class Grammar:
    def __init__(self, path):
        self.path = path
        self.prods = []
        seen = set()
        self.text = open(path).read()
        for line in self.text.splitlines():
            m = PROD_RE.match(line)
            if m:
                lhs, rhs, act = m.group(1).strip(), m.group(2).strip(), int(m.group(3))
                key = (lhs, rhs, act)
                if key in seen:
                    continue
                seen.add(key)
                self.prods.append(Production(lhs, split_syms(rhs), act))
        self.by_lhs = {}
        for p in self.prods:
            self.by_lhs.setdefault(p.lhs, []).append(p)
        # keep source order stable: sort alternatives by action number
        for k in self.by_lhs:
            self.by_lhs[k].sort(key=lambda p: p.action)
        self.sigs = self._signatures()

    def _signatures(self):
        """action number -> (list of (argname, type) after the grammar parameters, return type, nparams)"""
        sigs = {}
        lines = self.text.splitlines()
        i = 0
        while i < len(lines):
            m = FN_RE.match(lines[i])
            if m:
                n = int(m.group(1))
                j = i
                hdr = ''
                while not lines[j].startswith('{'):
                    hdr += lines[j] + '\n'
                    j += 1
                pm = re.search(r'>\(\n(.*)\n\) -> (.*)\n$', hdr, re.S)
                if pm:
                    args = [a.strip().rstrip(',') for a in pm.group(1).split('\n') if a.strip()]
                    sigs[n] = (args, pm.group(2).strip())
                i = j
            i += 1
        return sigs

    def find(self, lhs, syms):
        for p in self.by_lhs.get(lhs, []):
            if p.syms == syms:
                return p
        return None

    def terminals(self):
        t = set()
        for p in self.prods:
            for s in p.syms:
                if is_terminal(s):
                    t.add(s)
        return t
