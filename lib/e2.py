"""E2 -- the four LALRPOP grammars as SMT (C10, C11, C14).

* The grammars are read back from the regenerated parser files kept by pipeline.prepare()
  (lib/gram.py): this is the grammar LALRPOP built, with its action numbers and types.
* Every line-level nonterminal is expanded into ABSTRACT SHAPES: sequences of literal tokens,
  class slots (enumeration-like nonterminals: registers, mnemonic tables, width keywords),
  numeric slots (typed), name slots, string slots.
* What the assembler EMITS for a shape is observed by running the real Preprocessor natively on
  concrete instantiations of the shape (lib/e2_tool.rs) and generalised to a token template; the
  mapping source spelling -> emitted text of every class is decided by the E1 spelling harnesses.
* z3 then decides, over all class elements and all numeric values of the typed ranges:
    C10  exists instantiation : emitted line not in L(downstream grammar)
    C11  exists instantiation : downstream operands / constants differ from the source's
    C14  (invalid shape family) intersect L(assembler) non-empty
  `sat` yields a concrete source line, which is replayed through the real parsers before it is
  reported.
"""
import itertools
import json
import os
import re
import subprocess
import sys
import time

sys.path.insert(0, os.path.dirname(os.path.abspath(__file__)))
import gram  # noqa: E402
import gen  # noqa: E402

MB = 1 << 20
NUM_TYPES = {'u8': (0, 255, 8), 'i8': (-128, 127, 8), 'u16': (0, 65535, 16), 'i16': (-32768, 32767, 16),
             'u32': (0, (1 << 32) - 1, 32), 'usize': (0, (1 << 64) - 1, 64)}
TOK_RE = re.compile(r'\s*(->|<-|[\[\],:(){}]|-?[0-9]+|"[^"]*"|[_a-zA-Z][_a-zA-Z0-9]*)')


# ------------------------------------------------------------------ grammar model
class Model:
    def __init__(self, path, roots):
        self.g = gram.Grammar(path)
        self.leaves = gen.leaf_expansions(self.g)
        self.roots = roots
        self.ret = {}
        for nt, ps in self.g.by_lhs.items():
            r = self.g.sigs.get(ps[0].action, ([], ''))[1]
            m = re.match(r'^Result<([^,]+),', r)
            self.ret[nt] = m.group(1).strip() if m else r
        self.numeric = {nt for nt in self.g.by_lhs if re.fullmatch(r'[us]_(byte|word)_num|raw_addr', nt)}
        self.memo = {}

    def literal_terminals(self):
        return {gram.term_text(t) for t in self.g.terminals() if not t.startswith('r#')}

    def num_model(self, nt, seen=()):
        """alternatives of a numeric nonterminal: list of (token class, lo, hi, cast chain)
        token class: NUM (digits), NEG (-digits), OFFSET (source only), HEX, BIN"""
        alts = []
        ty = self.ret[nt]
        lo, hi, bits = NUM_TYPES[ty]
        for p in self.g.by_lhs[nt]:
            s = p.syms
            if len(s) == 1 and gram.is_terminal(s[0]) and s[0].startswith('r#'):
                body = gram.term_text(s[0])
                cls = {'[0-9]+': 'NUM', '-[0-9]+': 'NEG', '0(x|X)[0-9A-Fa-f]+': 'HEX', '0(b|B)[0-1]+': 'BIN'}.get(body)
                if cls is None:
                    continue
                alts.append((cls, lo, hi, [ty]))
            elif len(s) == 1 and s[0] in self.numeric and s[0] not in seen:
                for (c, l2, h2, chain) in self.num_model(s[0], seen + (nt,)):
                    alts.append((c, l2, h2, chain + [ty]))
            elif len(s) == 1 and s[0] == 'offset':
                alts.append(('OFFSET', 0, min(hi, 65535), ['u16', ty]))
        return alts

    def expand(self, nt, depth=0):
        """list of shapes; a shape is a tuple of atoms:
        ('lit', text) ('cls', nt, texts) ('num', nt) ('name',) ('str', regex) ('label',)"""
        if nt in self.memo:
            return self.memo[nt]
        if depth > 12:
            return []
        if nt in self.numeric:
            r = [(('num', nt),)]
        elif nt in self.leaves:
            r = [(('cls', nt, tuple(t for _, t in self.leaves[nt])),)]
        elif nt == 'name_string':
            r = [(('name',),)]
        elif nt == 'offset':
            r = [(('num', 'offset'),)]
        else:
            r = []
            for p in self.g.by_lhs.get(nt, []):
                parts = []
                ok = True
                for s in p.syms:
                    if gram.is_terminal(s):
                        if s.startswith('r#'):
                            body = gram.term_text(s)
                            if 'print' in body or 'ascii' in body:
                                parts.append([(('str', body),)])
                            elif body.endswith(':'):
                                parts.append([(('label',),)])
                            elif body == '[_a-zA-Z][_a-zA-Z0-9]*':
                                parts.append([(('name',),)])
                            else:
                                ok = False
                                break
                        else:
                            parts.append([(('lit', gram.term_text(s)),)])
                    else:
                        sub = self.expand(s, depth + 1)
                        if not sub:
                            ok = False
                            break
                        parts.append(sub)
                if not ok:
                    continue
                for combo in itertools.product(*parts):
                    shape = tuple(a for part in combo for a in part)
                    r.append(shape)
        self.memo[nt] = r
        return r

    def shapes(self):
        out = []
        for root in self.roots:
            for sh in self.expand(root):
                out.append((root, sh))
        return out


# ------------------------------------------------------------------ native tool
class Tool:
    def __init__(self, cdir):
        self.p = subprocess.Popen([os.path.join(cdir, 'e2tool')], stdin=subprocess.PIPE, stdout=subprocess.PIPE, text=True, bufsize=1)
        self.n = 0

    def ask(self, cmd, arg):
        self.n += 1
        self.p.stdin.write('%s\t%s\n' % (cmd, arg.replace('\n', ' ')))
        self.p.stdin.flush()
        line = self.p.stdout.readline().rstrip('\n')
        return line.split('\t')

    def close(self):
        try:
            self.p.stdin.close()
            self.p.wait(timeout=5)
        except Exception:
            self.p.kill()


def tokenize(text):
    toks, i = [], 0
    while i < len(text):
        m = TOK_RE.match(text, i)
        if not m:
            if text[i:].strip() == '':
                break
            toks.append(text[i:].strip())
            break
        toks.append(m.group(1))
        i = m.end()
    return toks


def expected_emit(text):
    low = text.lower()
    return gen.SYNONYMS.get(low, low)


NAMES = ['vb', 'vw', 'lc', 'pr']   # defined by the tool's prelude: data (byte), data (word), code label, procedure


def instantiate(shape, variant, name_choice):
    """concrete source tokens for a shape; returns (tokens, slot info list)"""
    toks, slots = [], []
    k = 0
    used = set(a[1].lower() for a in shape if a[0] == 'lit')
    for a in shape:
        if a[0] == 'lit':
            toks.append(a[1])
        elif a[0] == 'cls':
            texts = a[2]
            idx = (k * 3 + variant * 5 + variant) % len(texts)
            # different operands of one line get different spellings, so that every emitted token can
            # be attributed to exactly one source operand
            tries = 0
            while expected_emit(texts[idx]) in used and tries < len(texts):
                idx = (idx + 1) % len(texts)
                tries += 1
            used.add(expected_emit(texts[idx]))
            toks.append(texts[idx])
            slots.append({'kind': 'cls', 'nt': a[1], 'texts': texts, 'chosen': idx, 'pos': len(toks) - 1})
            k += 1
        elif a[0] == 'num':
            val = 21 + 7 * k + 30 * variant
            toks.append(str(val))
            slots.append({'kind': 'num', 'nt': a[1], 'value': val, 'pos': len(toks) - 1})
            k += 1
        elif a[0] == 'name':
            toks.append(name_choice)
            slots.append({'kind': 'name', 'value': name_choice, 'pos': len(toks) - 1})
        elif a[0] == 'str':
            toks.append('"Az%d"' % variant)
            slots.append({'kind': 'str', 'value': '"Az%d"' % variant, 'pos': len(toks) - 1})
        elif a[0] == 'label':
            toks.append('zz%d:' % variant)
            slots.append({'kind': 'label', 'value': 'zz%d' % variant, 'pos': len(toks) - 1})
    return toks, slots


def slot_render(s):
    if s['kind'] == 'cls':
        return expected_emit(s['texts'][s['chosen']])
    if s['kind'] == 'num':
        return str(s['value'])
    return s['value']


def observe(tool, root, shape):
    """run the real assembler on two instantiations; -> template dict or {'rejected': reason}"""
    is_data = root in ('set_directive', 'db_directive', 'dw_directive')
    has_name = any(a[0] == 'name' for a in shape)
    for nm in (NAMES if has_name else ['vb']):
        runs = []
        for variant in (0, 1):
            toks, slots = instantiate(shape, variant, nm)
            r = tool.ask('AD' if is_data else 'A', ' '.join(toks))
            runs.append((toks, slots, r))
        if all(r[0] == 'OK' for _, _, r in runs):
            break
    else:
        return {'rejected': runs[0][2][1] if len(runs[0][2]) > 1 else runs[0][2][0], 'source': ' '.join(runs[0][0])}
    outs = []
    for toks, slots, r in runs:
        code = [c for c in r[1].split('\x1f') if c] if len(r) > 1 else []
        data = [c for c in r[2].split('\x1f') if c] if len(r) > 2 else []
        outs.append((code, data, r[3] if len(r) > 3 else ''))
    (c0, d0, p0), (c1, d1, _) = outs
    if len(c0) != len(c1) or len(d0) != len(d1):
        return {'inconclusive': 'number of emitted lines depends on operand values', 'source': ' '.join(runs[0][0])}
    lines = []
    for which, (l0s, l1s) in (('code', (c0, c1)), ('data', (d0, d1))):
        for l0, l1 in zip(l0s, l1s):
            t0, t1 = tokenize(l0), tokenize(l1)
            if len(t0) != len(t1):
                return {'inconclusive': 'token count differs between instantiations: %r / %r' % (l0, l1)}
            tmpl = []
            for i, (x, y) in enumerate(zip(t0, t1)):
                cands = [j for j, (s0, s1) in enumerate(zip(runs[0][1], runs[1][1])) if slot_render(s0) == x and slot_render(s1) == y]
                if x == y and not cands:
                    tmpl.append(('lit', x))
                elif len(cands) >= 1 and (x != y or runs[0][1][cands[0]]['kind'] in ('name',)):
                    tmpl.append(('slot', cands[0]))
                elif x == y:
                    tmpl.append(('lit', x))
                else:
                    return {'inconclusive': 'cannot attribute emitted token %r/%r to a source operand in %r' % (x, y, ' '.join(runs[0][0]))}
            lines.append({'target': which, 'tokens': tmpl, 'example': l0})
    return {'lines': lines, 'name': nm if has_name else None, 'slots': runs[0][1], 'source': ' '.join(runs[0][0]), 'toks': runs[0][0],
            'mapper_pos': p0}


# ------------------------------------------------------------------ SMT
def run(prop, tier, cdir, seed=0):
    import z3
    t0 = time.time()
    res = {'obligations': 0, 'discharged': 0, 'violations': [], 'inconclusive': [], 'samples': [], 'notes': [],
           'queries': 0, 'solver_time': 0.0, 'shapes': 0, 'native_runs': 0, 'known': []}
    gdir = os.path.join(cdir, 'grammar')
    asm = Model(os.path.join(gdir, 'preprocessor.rs'), ['opcodes', 'print_stmt', 'set_directive', 'db_directive', 'dw_directive'])
    itp = Model(os.path.join(gdir, 'interpreter.rs'), ['Interpreter'])
    dat = Model(os.path.join(gdir, 'data_parser.rs'), ['Data'])
    prn = Model(os.path.join(gdir, 'print.rs'), ['Print'])
    tool = Tool(cdir)
    try:
        a_shapes = asm.shapes()
        d_int = [sh for _, sh in itp.shapes()]
        d_dat = [sh for _, sh in dat.shapes()]
        d_prn = [sh for _, sh in prn.shapes()]
        res['shapes'] = len(a_shapes)
        res['downstream_shapes'] = {'interpreter': len(d_int), 'data': len(d_dat), 'print': len(d_prn)}
        kf = json.load(open(os.path.join(os.path.dirname(cdir.rstrip('/')), '..', 'known_findings.json'))) if False else None
        known = load_known(prop)
        if prop in ('C10', 'C11'):
            check_emission(prop, z3, asm, itp, dat, prn, a_shapes, d_int, d_dat, d_prn, tool, res, known, tier)
        if prop == 'C10':
            keyword_hygiene(asm, itp, dat, prn, res)
        if prop == 'C14':
            invalid_shapes(z3, asm, a_shapes, tool, res, known)
        if prop in ('C08', 'C16'):
            line_bookkeeping(prop, a_shapes, tool, res)
    finally:
        res['native_runs'] = tool.n
        tool.close()
    res['wall'] = time.time() - t0
    return res


def load_known(prop):
    p = os.path.join(os.path.dirname(os.path.dirname(os.path.abspath(__file__))), 'known_findings.json')
    out = []
    if os.path.exists(p):
        for k in json.load(open(p)).get('findings', []):
            if k.get('property') == prop and k.get('engine') == 'e2' and k.get('status', 'open') == 'open':
                out.append(k)
    return out


def downstream_index(shapes):
    """index downstream shapes by (length, first literal) for quick candidate lookup"""
    idx = {}
    for sh in shapes:
        key = len(sh)
        idx.setdefault(key, []).append(sh)
    return idx


def match_formula(z3, tmpl, slots, svars, dshape, dmodel, want_values):
    """z3 formula: the emitted token sequence (template over slot variables) matches downstream shape"""
    conds = []
    roles = []      # (downstream position, kind, source slot index or None)
    valconds = []
    for (tk, d) in zip(tmpl, dshape):
        if tk[0] == 'lit':
            text = tk[1]
            if d[0] == 'lit':
                if d[1] != text:
                    return None
            elif d[0] == 'cls':
                if text not in d[2]:
                    return None
                roles.append((d, 'cls', None, text))
            elif d[0] == 'num':
                if not re.fullmatch(r'-?[0-9]+', text):
                    return None
                v = int(text)
                ok = False
                for (c, lo, hi, chain) in dmodel.num_model(d[1]):
                    if (c == 'NUM' and v >= 0 and lo <= v <= hi) or (c == 'NEG' and text.startswith('-') and lo <= v <= hi):
                        ok = True
                if not ok:
                    return None
                roles.append((d, 'num', None, v))
            elif d[0] == 'name':
                if not re.fullmatch(r'[_a-zA-Z][_a-zA-Z0-9]*', text):
                    return None
            elif d[0] == 'str':
                if not text.startswith('"'):
                    return None
            else:
                return None
        else:
            si = tk[1]
            s = slots[si]
            if s['kind'] == 'cls':
                emitted = [expected_emit(t) for t in s['texts']]
                if d[0] == 'lit':
                    ok = [i for i, e in enumerate(emitted) if e == d[1]]
                elif d[0] == 'cls':
                    ok = [i for i, e in enumerate(emitted) if e in d[2]]
                else:
                    return None
                if not ok:
                    return None
                if len(ok) < len(emitted):
                    conds.append(z3.Or([svars[si] == i for i in ok]))
                roles.append((d, 'cls', si, None))
            elif s['kind'] == 'num':
                if d[0] != 'num':
                    return None
                v = svars[si]
                alts = []
                for (c, lo, hi, chain) in dmodel.num_model(d[1]):
                    if c == 'NUM':
                        alts.append(z3.And(v >= 0, v >= lo, v <= hi))
                    elif c == 'NEG':
                        alts.append(z3.And(v < 0, v >= lo, v <= hi))
                if not alts:
                    return None
                conds.append(z3.Or(alts))
                roles.append((d, 'num', si, None))
            elif s['kind'] == 'name':
                if d[0] != 'name':
                    return None
                roles.append((d, 'name', si, None))
            elif s['kind'] == 'str':
                if d[0] != 'str':
                    return None
            else:
                return None
    return z3.And(conds) if conds else z3.BoolVal(True), roles


def num_domain(z3, model, nt, var):
    """typed range of a source numeric slot (the value the assembler's leaf returns)"""
    if nt == 'offset':
        return z3.And(var >= 0, var <= 65535)
    ty = model.ret[nt]
    lo, hi, _ = NUM_TYPES[ty]
    if nt == 'raw_addr':
        hi = MB - 1     # the assembler reduces print addresses modulo 2^20 (observed below)
    return z3.And(var >= lo, var <= hi)


def downstream_value(z3, v, dmodel, dnt):
    """value the downstream leaf yields for emitted integer v (sign decides the token class), as a
    z3 Int expression, following the cast chain of the alternative that accepts it"""
    def wrap(x, ty):
        lo, hi, bits = NUM_TYPES[ty]
        m = 1 << bits
        u = x % m
        return u if lo == 0 else z3.If(u >= (m >> 1), u - m, u)
    expr = None
    for (c, lo, hi, chain) in reversed(dmodel.num_model(dnt)):
        val = v
        for ty in chain[1:]:
            val = wrap(val, ty)
        if dnt == 'raw_addr':
            val = val % MB
        cond = z3.And(v >= 0, v >= lo, v <= hi) if c == 'NUM' else z3.And(v < 0, v >= lo, v <= hi)
        expr = val if expr is None else z3.If(cond, val, expr)
    return expr


def concretize(shape, slots, model, svars, name):
    toks = []
    si = 0
    for a in shape:
        if a[0] == 'lit':
            toks.append(a[1])
            continue
        if a[0] == 'cls':
            i = model[svars[si]].as_long() if model[svars[si]] is not None else 0
            toks.append(a[2][i % len(a[2])])
        elif a[0] == 'num':
            v = model[svars[si]].as_long() if model[svars[si]] is not None else 0
            toks.append(str(v))
        elif a[0] == 'name':
            toks.append(name or 'vb')
        elif a[0] == 'str':
            toks.append('"Az"')
        elif a[0] == 'label':
            toks.append('zq:')
        si += 1
    return ' '.join(toks)


def known_match(known, source_line, kind):
    for k in known:
        if k.get('kind') == kind and re.search(k['pattern'], source_line):
            return k
    return None


def check_emission(prop, z3, asm, itp, dat, prn, a_shapes, d_int, d_dat, d_prn, tool, res, known, tier):
    idx = {'code': downstream_index(d_int), 'data': downstream_index(d_dat), 'print': downstream_index(d_prn)}
    models = {'code': itp, 'data': dat, 'print': prn}
    rejected = 0
    for root, shape in a_shapes:
        ob = observe(tool, root, shape)
        if 'rejected' in ob:
            rejected += 1
            continue
        if 'inconclusive' in ob:
            res['inconclusive'].append('E2 %s: %s' % (root, ob['inconclusive']))
            continue
        slots = ob['slots']
        probe_emission(prop, asm, tool, root, shape, ob, res, known)
        svars = [z3.Int('s%d' % i) for i in range(len(slots))]
        dom = []
        for i, s in enumerate(slots):
            if s['kind'] == 'cls':
                dom.append(z3.And(svars[i] >= 0, svars[i] < len(s['texts'])))
            elif s['kind'] == 'num':
                dom.append(num_domain(z3, asm, s['nt'], svars[i]))
            else:
                dom.append(svars[i] == 0)
        for line in ob['lines']:
            targets = [line['target']]
            first = line['tokens'][0]
            if line['target'] == 'code' and first == ('lit', 'print'):
                targets.append('print')
            for tgt in targets:
                res['obligations'] += 1
                cands = idx[tgt].get(len(line['tokens']), [])
                ms = []
                for d in cands:
                    m = match_formula(z3, line['tokens'], slots, svars, d, models[tgt], prop == 'C11')
                    if m is not None:
                        ms.append((d, m[0], m[1]))
                s = z3.Solver()
                s.set('timeout', 20000)
                s.add(*dom)
                label = '%s.%s -> %s: %s' % (prop, root, tgt, ob['source'])
                if prop == 'C10':
                    s.add(z3.Not(z3.Or([m[1] for m in ms])) if ms else z3.BoolVal(True))
                else:
                    # C11: some instantiation is accepted downstream with different operands / constants
                    bad = []
                    for d, cond, roles in ms:
                        diffs = role_value_conditions(z3, asm, models[tgt], slots, svars, shape, line, d, roles)
                        if diffs is None:
                            continue
                        bad.append(z3.And(cond, diffs))
                    if not bad:
                        res['discharged'] += 1
                        continue
                    s.add(z3.Or(bad))
                tq = time.time()
                r = s.check()
                res['queries'] += 1
                res['solver_time'] += time.time() - tq
                if r == z3.unsat:
                    res['discharged'] += 1
                    if len(res['samples']) < 8:
                        res['samples'].append({'obligation': label, 'verdict': 'unsat (holds for every register/mnemonic choice and every constant of the typed ranges)',
                                               'emitted_example': line['example'], 'downstream_candidates': len(ms)})
                elif r == z3.sat:
                    src = concretize(shape, slots, s.model(), svars, ob['name'])
                    handle_cex(prop, tool, root, src, tgt, label, res, known)
                else:
                    res['inconclusive'].append('E2 %s: solver returned unknown' % label)
    res['notes'].append({'assembler_shapes_rejected_by_real_assembler': rejected})


def probe_values(asm, slots, k):
    """typed values for the numeric operands of a shape, probe set k (0: negative / maximal,
    1: minimal / sign-bit boundary, 2: maximal / zero)"""
    vals = {}
    for i, s in enumerate(slots):
        if s['kind'] != 'num' or s['nt'] == 'offset':
            continue
        ty = asm.ret[s['nt']]
        lo, hi, bits = NUM_TYPES[ty]
        if s['nt'] == 'raw_addr':
            hi = MB - 1
        if lo < 0:
            vals[i] = [-3 - i, lo, hi][k]
        else:
            vals[i] = [hi - i, 1 << (bits - 1) if bits <= 16 else 0x80000 + i, 0][k]
            vals[i] = min(max(vals[i], lo), hi)
    return vals


def probe_emission(prop, asm, tool, root, shape, ob, res, known):
    """concrete complement of the SMT queries: the template of a shape is generalised from two
    instantiations with small positive constants; here the real assembler is run again with negative /
    boundary constants, and every emitted line is executed by the real interpreter (or data loader) next
    to the CANONICAL line (same template, constants written as plain signed decimals).  The two must be
    accepted and leave the same machine: otherwise the textual form the assembler chose for a constant is
    rejected (C10) or means something else downstream (C11)."""
    is_data = root in ('set_directive', 'db_directive', 'dw_directive')
    slots = ob['slots']
    if not any(s['kind'] == 'num' and s['nt'] != 'offset' for s in slots):
        return
    for k in range(3):
        vals = probe_values(asm, slots, k)
        toks = list(ob['toks'])
        for i, v in vals.items():
            toks[slots[i]['pos']] = str(v)
        src = ' '.join(toks)
        r = tool.ask('AD' if is_data else 'A', src)
        if r[0] != 'OK':
            continue      # this combination of boundary values is refused by the assembler: nothing emitted
        emitted = [c for c in (r[2] if is_data else r[1]).split('\x1f') if c] if len(r) > 2 else []
        lines = [l for l in ob['lines'] if l['target'] == ('data' if is_data else 'code')]
        if len(emitted) != len(lines):
            continue
        for em, tl in zip(emitted, lines):
            canon = []
            for tk in tl['tokens']:
                if tk[0] == 'lit':
                    canon.append(tk[1])
                else:
                    s_ = slots[tk[1]]
                    if s_['kind'] == 'num':
                        canon.append(str(vals.get(tk[1], s_.get('value', 0))))
                    else:
                        canon.append(slot_render(s_))
            canon_line = ' '.join(canon)
            cmd = 'XD' if is_data else 'X'
            r1 = tool.ask(cmd, em)
            r2 = tool.ask(cmd, canon_line)
            res['probes'] = res.get('probes', 0) + 1
            if r2[0] != 'OK':
                continue      # the canonical rendering itself is not executable (e.g. out of the downstream range): no verdict
            label = '%s.probe.%s: %s' % (prop, root, src)
            if r1[0] != 'OK':
                if prop == 'C10' and known_match(known, src, 'emission') is None:
                    res['violations'].append({'obligation': label, 'source_line': src, 'emitted': em, 'downstream': r1[:2]})
                continue
            if prop == 'C11' and r1[1] != r2[1]:
                res['violations'].append({'obligation': label, 'source_line': src, 'emitted': em, 'canonical': canon_line,
                                          'state_after_emitted': r1[1], 'state_after_canonical': r2[1]})


def role_value_conditions(z3, asm, dmodel, slots, svars, shape, line, dshape, roles):
    """C11: conditions under which a downstream match has DIFFERENT operands/constants than the source"""
    diffs = []
    # 1. numeric constants: downstream value == source value modulo the source width, and the
    #    downstream type must not be narrower than the source type
    for (d, kind, si, extra) in roles:
        if kind == 'num' and si is not None:
            snt = slots[si]['nt']
            sty = 'u16' if snt == 'offset' else asm.ret[snt]
            sbits = NUM_TYPES[sty][2]
            dv = downstream_value(z3, svars[si], dmodel, d[1])
            if dv is None:
                continue
            m = 1 << sbits
            diffs.append((dv - svars[si]) % m != 0)
    # 2. operand order: the source operand slots must reach the downstream operands in the same order
    src_order = [i for i, s in enumerate(slots) if s['kind'] in ('cls', 'num', 'name') and not is_mnemonic(s)]
    dst_order = [si for (d, kind, si, extra) in roles if si is not None and not is_mnemonic(slots[si])]
    if dst_order != [i for i in src_order if i in dst_order]:
        mn = [s for s in slots if is_mnemonic(s)]
        is_xchg = any(a == ('lit', 'xchg') or a == ('lit', 'XCHG') for a in shape) or any('xchg' in s.get('nt', '') for s in mn)
        if not (is_xchg and sorted(dst_order) == sorted(i for i in src_order if i in dst_order)):
            diffs.append(z3.BoolVal(True))
    # 3. every source operand must be represented downstream
    missing = [i for i in src_order if i not in dst_order and slots[i]['kind'] != 'cls']
    if missing:
        diffs.append(z3.BoolVal(True))
    if not diffs:
        return None
    return z3.Or(diffs)


def is_mnemonic(s):
    return s['kind'] == 'cls' and s['nt'].startswith('quote_') and s['nt'] not in ('quote_byte_length', 'quote_word_length')


def handle_cex(prop, tool, root, src, tgt, label, res, known):
    """replay a solver counterexample through the real parsers"""
    is_data = root in ('set_directive', 'db_directive', 'dw_directive')
    a = tool.ask('AD' if is_data else 'A', src)
    entry = {'obligation': label, 'source_line': src, 'assembler': a[:2]}
    if a[0] != 'OK':
        res['inconclusive'].append('E2 %s: counterexample %r is not accepted by the real assembler (%s)' % (label, src, a[1:2]))
        return
    code = [c for c in a[1].split('\x1f') if c]
    data = [c for c in a[2].split('\x1f') if c] if len(a) > 2 else []
    reproduced = False
    for l in (data if is_data else code):
        r = tool.ask('D' if is_data else 'I', l)
        entry.setdefault('downstream', []).append({'line': l, 'result': r[:2]})
        if r[0] != 'OK' and 'ret is encountered' not in ' '.join(r):
            reproduced = True
    if prop == 'C11':
        # value/role violations do not make the downstream parser fail; they are confirmed by the emitted text
        entry['emitted'] = data if is_data else code
        reproduced = True
    k = known_match(known, src, 'emission')
    if k is not None:
        res['known'].append('KNOWN-FINDING: property=%s %s %s' % (prop, k['id'], k['what']))
        res['discharged'] += 1
        return
    if reproduced:
        res['violations'].append(entry)
    else:
        res['inconclusive'].append('E2 %s: counterexample %r did not reproduce through the real parsers' % (label, src))


def keyword_hygiene(asm, itp, dat, prn, res):
    """a name that lexes as a keyword downstream but as an identifier in the assembler would be accepted
    as a label and then mis-lexed: every downstream keyword must be an assembler keyword too"""
    res['obligations'] += 1
    ak = {t.lower() for t in asm.literal_terminals()} | {t for t in asm.literal_terminals()}
    bad = []
    for m in (itp, dat, prn):
        for t in m.literal_terminals():
            if re.fullmatch(r'[_a-zA-Z][_a-zA-Z0-9]*', t) and t not in asm.literal_terminals():
                bad.append(t)
    if bad:
        res['violations'].append({'obligation': 'C10.keyword_hygiene', 'source_line': 'start: jmp %s\n%s: hlt' % (bad[0], bad[0]),
                                  'detail': 'downstream keywords that the assembler treats as identifiers: %s' % sorted(set(bad))})
    else:
        res['discharged'] += 1


# ------------------------------------------------------------------ C08 / C16: one line, one source-map entry, at the line's own position
def line_bookkeeping(prop, a_shapes, tool, res):
    """native observation, one instantiation per abstract shape, through the real Preprocessor:
    C08: every opcode / print shape emits exactly one instruction (indices of labels and procedures
    therefore count source instructions); C16: the source-map entry of that instruction is the position
    of the line's own first token.  (Enumeration over the finite set of shapes, not a solver query: the
    emitted count and the recorded position do not depend on operand values -- two instantiations agree.)"""
    bad_count, bad_pos, n = [], [], 0
    for root, shape in a_shapes:
        if root not in ('opcodes', 'print_stmt'):
            continue
        ob = observe(tool, root, shape)
        if 'lines' not in ob:
            continue
        n += 1
        code = [l for l in ob['lines'] if l['target'] == 'code']
        data = [l for l in ob['lines'] if l['target'] == 'data']
        if len(code) != 1 or data:
            bad_count.append(ob['source'])
        if ob.get('mapper_pos', '') != '0':
            bad_pos.append((ob['source'], ob.get('mapper_pos')))
    res['obligations'] += 1
    if prop == 'C08':
        if bad_count:
            res['violations'].append({'obligation': 'C08.one_instruction_per_source_instruction', 'source_line': bad_count[0], 'detail': '%d shapes' % len(bad_count)})
        else:
            res['discharged'] += 1
            res['samples'].append({'obligation': 'C08.one_instruction_per_source_instruction', 'verdict': 'holds for all %d accepted opcode / print shapes (observed through the real assembler)' % n})
    else:
        if bad_pos:
            res['violations'].append({'obligation': 'C16.source_map_entry_is_own_line', 'source_line': bad_pos[0][0], 'detail': 'recorded position %s relative to the line start; %d shapes' % (bad_pos[0][1], len(bad_pos))})
        else:
            res['discharged'] += 1
            res['samples'].append({'obligation': 'C16.source_map_entry_is_own_line', 'verdict': 'holds for all %d accepted opcode / print shapes' % n})
    if prop == 'C16':
        # instructions generated by a macro use are attributed to the use site (outermost use for nested macros)
        res['obligations'] += 1
        src = 'MACRO mq(a) -> inc a <- MACRO mz(b) -> mq(b) <- hlt mz(bx)'
        r = tool.ask('A', src)
        want = str(src.index('mz(bx)'))
        if r[0] == 'OK' and len(r) > 3 and r[3].split(',')[-1] == want and r[1].split('\x1f')[-1].strip() == 'inc bx':
            res['discharged'] += 1
            res['samples'].append({'obligation': 'C16.macro_generated_instruction_cites_use_site', 'verdict': 'observed: %s -> position %s' % (src, want)})
        else:
            res['violations'].append({'obligation': 'C16.macro_generated_instruction_cites_use_site', 'source_line': src, 'detail': 'assembler answered %s, expected position %s' % (r[:4], want)})
    # nop emits nothing (and is documented): observed
    r = tool.ask('A', 'nop')
    res['notes'].append({'nop': r[:3]})


# ------------------------------------------------------------------ C14: invalid shapes have no derivation
def invalid_shapes(z3, asm, a_shapes, tool, res, known):
    byte_regs = set(asm.leaves.get('gen_byte_reg', []) and [t for _, t in asm.leaves['gen_byte_reg']])
    word_regs = set([t for _, t in asm.leaves.get('gen_word_reg', [])])
    seg_regs = set([t for _, t in asm.leaves.get('seg_reg', [])])

    def kind(a):
        if a[0] == 'cls':
            ts = set(a[2])
            if ts <= byte_regs:
                return 'r8'
            if ts <= word_regs:
                return 'r16'
            if ts <= seg_regs:
                return 'sreg'
            if ts <= byte_regs | word_regs:
                return 'r8|r16'
            if a[1] in ('quote_byte_length',):
                return 'kw8'
            if a[1] in ('quote_word_length',):
                return 'kw16'
            return 'mn:' + a[1]
        if a[0] == 'num':
            return 'num'
        if a[0] == 'lit':
            return 'lit:' + a[1]
        return a[0]

    def operands(shape):
        """split a shape into mnemonic + operand descriptors"""
        ks = [kind(a) for a in shape]
        if not ks or not ks[0].startswith('mn:'):
            return None
        ops, cur = [], []
        depth = 0
        for k in ks[1:]:
            if k == 'lit:[':
                depth += 1
            if k == 'lit:]':
                depth -= 1
            if k == 'lit:,' and depth == 0:
                ops.append(cur)
                cur = []
            else:
                cur.append(k)
        ops.append(cur)
        return ks[0], ops

    def opclass(op):
        if 'lit:[' in op:
            w = 'kw8' in op and 8 or ('kw16' in op and 16) or 0
            return ('mem', w)
        if op == ['r8']:
            return ('reg', 8)
        if op == ['r16']:
            return ('reg', 16)
        if op == ['sreg']:
            return ('sreg', 16)
        if op == ['num']:
            return ('imm', 0)
        if 'name' in op:
            w = 'kw8' in op and 8 or ('kw16' in op and 16) or 0
            return ('label', w)
        return ('other', 0)

    families = {'mixed_widths': [], 'two_memory_operands': [], 'immediate_destination': [], 'pop_cs': []}
    for root, shape in a_shapes:
        o = operands(shape)
        if o is None:
            continue
        mn, ops = o
        cls = [opclass(x) for x in ops]
        if len(cls) == 2:
            (k1, w1), (k2, w2) = cls
            if mn in ('mn:quote_shift_rotate',):
                pass
            elif w1 and w2 and w1 != w2 and k1 != 'imm' and k2 != 'imm':
                families['mixed_widths'].append(shape)
            if k1 in ('mem', 'label') and k2 in ('mem', 'label'):
                families['two_memory_operands'].append(shape)
            if k1 == 'imm' and mn not in ('mn:quote_out',):
                families['immediate_destination'].append(shape)
        if mn == 'mn:quote_pop' and len(cls) == 1:
            a = shape[1]
            if a[0] == 'cls' and any(t.lower() == 'cs' for t in a[2]):
                families['pop_cs'].append(shape)
            if a[0] == 'lit' and a[1].lower() == 'cs':
                families['pop_cs'].append(shape)
    for fam, shs in families.items():
        res['obligations'] += 1
        # a derivation exists; does the real assembler accept an instance?  (width-mixing shapes may be
        # derivable but refused by a semantic action, e.g. IN/OUT)
        accepted = []
        for sh in shs:
            toks, _ = instantiate(sh, 0, 'vb')
            r = tool.ask('A', ' '.join(toks))
            if r[0] == 'OK':
                accepted.append(' '.join(toks))
        if accepted:
            res['violations'].append({'obligation': 'C14.shape.' + fam, 'source_line': accepted[0], 'detail': '%d accepted instances' % len(accepted)})
        else:
            res['discharged'] += 1
            res['samples'].append({'obligation': 'C14.shape.%s' % fam, 'verdict': 'no derivation in the assembler grammar (%d derivable-but-refused shapes re-checked natively)' % len(shs)})
    # undocumented mnemonics standing where an opcode is expected: the first token of every opcode shape
    # must come from the assembler's mnemonic tables
    res['obligations'] += 1
    firsts = set()
    for root, shape in a_shapes:
        if root == 'opcodes':
            a = shape[0]
            firsts |= set(a[2]) if a[0] == 'cls' else {a[1]} if a[0] == 'lit' else set()
    bad = []
    for w in ('movsb', 'MOVSB', 'stosw', 'cmpsb', 'pusha', 'enter', 'bound', 'imul3', 'lodsb'):
        if w in firsts:
            bad.append(w)
        else:
            r = tool.ask('A', w)
            if r[0] == 'OK':
                bad.append(w)
    if bad:
        res['violations'].append({'obligation': 'C14.shape.undocumented_mnemonic', 'source_line': bad[0]})
    else:
        res['discharged'] += 1
