"""Per-property configuration of the E1 checks (harness selection is by name prefix cNN_)."""

COMMON_ASSUMPTIONS = [
    'rustc/Kani 0.68 MIR->goto translation, CBMC 6.11 symbolic execution and the SAT/SMT back ends are sound',
    'an uninitialised 1 MiB heap object stands for arbitrary memory contents (CBMC semantics)',
    'Kani models the dev/test profile (integer-overflow checks on); release behaviour is observed by replay only',
    'reference oracles are hand-written from the 8086 Family User\'s Manual; architecturally undefined flags are not compared',
    'every solver counterexample is replayed natively against the real code before it is reported',
]

RUN_NOTE = ('driver level: the REAL text of CMDDriver::run() (a copy of src/driver/driver.rs in which only the `use` lines are redirected, lib/gen.py rewrite_uses) with the regex, '
            'the assembler, the run-time parsers, get_err_pos, the interrupt services and VM::new() replaced by stubs (harness/drv.rs) that answer within the contract of the real component')
PROPS = {
    'C01': {
        'extra_harnesses': r'^c04_memory_addr$|^c04_labels$',
        'explanation': 'ADD/ADC/SUB/SBB/CMP/INC/DEC/NEG kernels and the binary/unary arithmetic productions of the '
                       'interpreter grammar, decided against a reference for every operand value, flag word, register '
                       'choice, memory address and memory content',
        'bounds': 'loop-free: every value of every symbolic input (operands, 16-bit flag word, 14 registers, 1 MiB memory, probe address)',
        'outside': 'the LALRPOP parser driver / lexer (which production fires for which text) is validated by native '
                   'runs of the real parser on rendered instructions, not by the solver',
        'backends': [(r'^c01_', ['z3', 'cvc5', 'sat-arrays']), (r'_(rr|ri)(8|16)$|_unary_r(8|16)$', ['sat', ('cvc5', 'z3')]), (r'.*', [('cvc5', 'z3'), 'sat-arrays'])],
        'timeout': {'quick': 1200, 'thorough': 3000},
        'assumptions': ['B-harnesses take the physical address of a memory operand as an arbitrary symbolic value (that it is the right address is C04)'],
        'level_text': 'bounded model checking with no bound needed (loop-free): CBMC decides every labelled obligation '
                      '(result, each of the six flags, other flag bits, registers, a symbolic memory probe cell) for all '
                      'operand values, flag words, registers and memory contents; stronger than sampling because the '
                      'failing inputs are isolated carry/borrow boundary points',
        'level_note': 'trusted: Kani/CBMC/solver soundness, hand-written oracle from the Intel manual; the parser driver '
                      '(text -> production) is validated natively, not by the solver; INC/DEC CF and NEG(0) SF are known findings',
    },
}
PROPS['C02'] = {
    'extra_harnesses': r'^c04_memory_addr$|^c04_labels$',
    'explanation': 'AND/OR/XOR/TEST and SHL/SAL/SHR/SAR/ROL/ROR/RCL/RCR kernels (and the interpreter productions that '
                   'apply them) against a reference that performs count single-bit 8086 steps',
    'bounds': 'count 0..255 is the whole operand domain; reference loop unwound 257 times with unwinding assertions; '
              'values, flag word, registers, memory unconstrained',
    'outside': 'parser driver / lexer (validated natively)',
    'backends': [(r'^c02_(byte|word)_(sal|shr|sar|rol|ror|rcl|rcr)$', ['sat', 'z3']), (r'^c02_', ['z3', 'cvc5', 'sat-arrays']),
                 (r'_(rr|ri|rc)(8|16)$', ['sat', ('cvc5', 'z3')]), (r'.*', [('cvc5', 'z3'), 'sat-arrays'])],
    'timeout': {'quick': 1200, 'thorough': 3000},
    'assumptions': ['OF is compared only for count = 1 and AF never (architecturally undefined)'],
    'level_text': 'bounded model checking; the bound (256 loop iterations of the reference) covers the complete count '
                  'domain, so within the stated trusted base every (value, count, carry-in) is decided',
    'level_note': 'trusted: Kani/CBMC/solver soundness, oracle = repeated single-bit steps written from the Intel manual',
}
PROPS['C03'] = {
    'explanation': RUN_NOTE + ' -- INT(0) from the first instruction: the divide-error message shows the line of that instruction and nothing is executed afterwards (two-instruction programs, DESIGN.md section 6).  ' + 'MUL/IMUL/DIV/IDIV, AAA/AAS/DAA/DAS/AAM/AAD, CBW/CWD kernels against wide-arithmetic references; '
                   'divide error = Err for a zero divisor or a quotient that does not fit; no implicit check can fail',
    'bounds': 'loop-free: every AX / DX:AX, operand, flag word, register and memory content',
    'outside': 'the driver\'s INT 0 message and exit (inside CMDDriver::run)',
    'backends': [(r'_frame_|_twin_|_frame$', [('z3', 'cvc5'), 'sat-arrays']), (r'c03_word_i?div$', ['z3', 'cvc5']),
                 (r'^c03b_unary_r(8|16)_k', [('z3', 'cvc5'), 'sat']), (r'^c03b_', [('cvc5', 'z3'), 'sat-arrays']), (r'.*', ['sat', 'z3'])],
    'timeout': {'quick': 900, 'thorough': 2400},
    'assumptions': ['word DIV/IDIV: the reference uses Rust\'s own / and % on the same operands (a divider-vs-multiplier query does not finish); byte DIV/IDIV are checked against the multiplicative definition n = q*d + r',
                    'flags that the manual leaves undefined are not compared',
                    'DAA/DAS: the 1979 (adjusted AL > 9Fh) and the later (original AL > 99h) formulations are both accepted',
                    'IDIV: a quotient of exactly -128 / -32768 may either fit or raise the divide error'],
    'level_text': 'bounded model checking without a bound (loop-free): full 48-bit DX:AX x divisor space for the word forms, '
                  'where the failing inputs (quotient overflow, MIN / -1) are a vanishing fraction of the domain',
    'level_note': 'trusted: Kani/CBMC/solver soundness, oracle in 64-bit arithmetic written from the Intel manual',
}
PROPS['C04'] = {
    'explanation': 'the ten memory_addr productions (with their leaf actions), byte_label/word_label, byte/word register '
                   'access and LEA, against (segment*16 + 16-bit offset sum) mod 2^20 with the architectural default segment',
    'bounds': 'loop-free: every addressing shape x base x index x override x displacement x register and memory state',
    'outside': 'reads/writes AT the address are the B-harnesses of C01/C02/C05 (they take the address symbolic); parser driver validated natively',
    'backends': [(r'label', ['sat', 'z3'])],
    'assumptions': ['label table = association list under Kani (std HashMap cannot be model checked); one label named v'],
    'level_text': 'bounded model checking without a bound: the returned address is compared with the architectural '
                  'formula for all 2^16 values of every register involved, which is where offset and 1 MiB wrap-arounds live',
    'level_note': 'trusted: Kani/CBMC/solver soundness; LEA with a non-DS segment is a known finding',
}
PROPS['C05'] = {
    'extra_harnesses': r'^c04_memory_addr$|^c04_labels$',
    'explanation': 'the 22 MOV, 6 XCHG, 4 PUSH, 3 POP productions and PUSHF/POPF/LAHF/SAHF/XLAT, against dst := src / swap / '
                   'stack-discipline oracles, plus PUSH x; POP y and a 4-step LIFO history from an arbitrary SS:SP',
    'bounds': 'each production from an arbitrary state (the inductive step of any stack history); PUSH x; POP y; a fixed 4-step history; every interleaving of 4 (quick) / 6 (thorough) pushes and pops of symbolically chosen registers against a reference stack',
    'outside': 'memory operands of PUSH/POP that overlap the stack cells being transferred; PUSH SP / POP SP accept both documented behaviours; the assembler side of push/pop is C10/C11',
    'backends': [(r'_(rr8|rr16|ri8|ri16|sr|rs)$', ['sat', ('cvc5', 'z3')]), (r'pair|lifo|history', [('cvc5', 'z3'), 'sat-arrays']), (r'.*', [('cvc5', 'z3'), 'sat-arrays'])],
    'timeout': {'quick': 1200, 'thorough': 3000},
    'assumptions': ['the physical address of a memory operand is an arbitrary symbolic value (C04 decides that it is the right one)'],
    'level_text': 'bounded model checking: every production is decided for all register, flag, address and memory contents '
                  '(loop-free), including SP = 0/1/0xFFFF and SS:SP at the top of the 1 MiB space',
    'level_note': 'trusted: Kani/CBMC/solver soundness; reduction order of the LR parser validated natively',
}
PROPS['C06'] = {
    'explanation': 'the 26 jumps_condition actions against the Intel predicate table (by mnemonic), the LOOP family CX protocol, '
                   'complement pairs, and the jumps_loops combiner (label lookup -> JMP(position) / NEXT / error); the assembler\'s '
                   'synonym table (which mnemonic each of the spellings is emitted as) is decided by the grammar engine',
    'bounds': 'loop-free: all 2^16 flag words x 2^16 CX x every mnemonic; label table with one entry',
    'outside': 'which interpreter mnemonic a source spelling is turned into is E2 (spelling table below); parser driver',
    'backends': [(r'combiner|^c06s_', ['sat', 'z3']), (r'.*', [('z3', 'cvc5'), 'sat-arrays'])],
    'assumptions': ['synonym table (JNBE=JA, JNA=JBE, ... ) transcribed from the Intel manual in lib/gen.py', 'label table = association list under Kani'],
    'level_text': 'bounded model checking without a bound: the predicate of every mnemonic is compared with the Intel table for all flag words',
    'level_note': 'trusted: Kani/CBMC/solver soundness; JLE/JNG is a known finding (pinned by a repository test)',
}
PROPS['C07'] = {
    'explanation': RUN_NOTE + ' -- REPEAT from the first instruction: the same index is handed to the interpreter again (two-instruction programs, DESIGN.md section 6).  ' + 'the ten string kernels (element at DS:SI / ES:DI, +-1/+-2 by DF, CMPS/SCAS flags = SUB, nothing else changes), '
                   'the mnemonic -> kernel table, and the REP/REPE/REPNE productions driven through the REPEAT protocol to '
                   'completion with a scripted body (arbitrary sequence of ZF outcomes) against the architectural loop',
    'bounds': 'kernels: loop-free, all states; REP protocol: CX <= 3 (quick) / CX <= 8 (thorough), unwinding assertions on; larger CX outside the claim',
    'outside': 'word elements at offset 0xFFFF (second byte: physical successor vs. wrap) -- totality for them is C09; the driver loop that re-parses on REPEAT is played by the harness (reduction order validated natively)',
    'backends': [(r'rep_protocol|mnemonic|^c07s_', ['sat', 'z3']), (r'^c07d_', [('z3', 'cvc5'), 'sat-arrays']), (r'.*', [('z3', 'cvc5'), 'sat-arrays'])],
    'timeout': {'quick': 1200, 'thorough': 3000},
    'assumptions': ['REP harness: the string kernel is replaced by a scripted body passed as the semantic value of string_instructions (the productions receive the kernel as a value); the kernels themselves are the A-harnesses'],
    'level_text': 'bounded model checking: kernels for every state; prefix protocol for every CX within the bound and every sequence of comparison outcomes',
    'level_note': 'trusted: Kani/CBMC/solver soundness; CX beyond the bound is outside the claim',
}
PROPS['C09'] = {
    'explanation': 'harnesses GENERATED from the regenerated interpreter grammar: for every nonterminal, the action of a symbolically '
                   'chosen alternative is called with arbitrary argument values of the range its children can produce, in an arbitrary '
                   'machine state; no implicit check (overflow, shift distance, division, bounds, unwrap) may fail and every returned '
                   'address is < 2^20.  Kernels are reached through the symbolic kernel tables.',
    'bounds': 'loop-free (String loops over 1-character names unwound 6 times); label / procedure table with one name, call stack depth <= 2',
    'outside': 'the LALRPOP parser driver and lexer; numeric leaves that parse digit text (C11/C15); console interrupts (C18) and print (C17) live in the binary crate',
    'backends': [(r'unary_arithmetic', [('z3', 'cvc5', 'sat-arrays')]), (r'.*', [('z3', 'cvc5'), 'sat-arrays'])],
    'timeout': {'quick': 1200, 'thorough': 3000},
    'assumptions': ['argument domains: addresses < 2^20 (C04 address_in_range), register values <= 0xFFFF, numbers over their whole type',
                    'alloc::fmt::format is stubbed (error-message text is not the subject)', 'label table = association list under Kani'],
    'level_text': 'bounded model checking of every interpreter action for every state: the aborts this property is about (shift by the width, MIN / -1, index arithmetic) occur at isolated values',
    'level_note': 'trusted: Kani/CBMC/solver soundness; Kani models the dev profile (overflow checks on), release behaviour is observed by replay',
}
PROPS['C19'] = {
    'explanation': 'machine clauses only: VM::new() gives all-zero registers and memory except FLAGS=F000h, CS=FFFFh (memory by a symbolic '
                   'probe address over the real zero-initialised 1 MiB object); executing a symbolically chosen instruction of every class on '
                   'one machine leaves another machine untouched; the same instruction from equal register states yields equal states',
    'bounds': 'loop-free; one instruction step',
    'outside': 'byte-identical CLI output across processes (HashSet iteration order seeded by the OS inside CMDDriver::run), reuse of parser objects (the generated parse(&self) holds only immutable lexer tables: a typing argument), threads',
    'backends': [(r'vm_new|twin', ['sat-arrays', 'z3']), (r'determinism', ['sat', ('z3', 'cvc5')]), (r'.*', [('z3', 'cvc5'), 'sat-arrays'])],
    'timeout': {'quick': 1200, 'thorough': 3000},
    'assumptions': ['determinism is decided for register-only instructions (two arbitrary 1 MiB memories cannot be assumed equal cell by cell)'],
    'level_text': 'bounded model checking of the machine clauses; the process-level clauses of the statement are not claimed',
    'level_note': 'partial claim: fresh machine, isolation, determinism of a step; output reproducibility and parser reuse are outside (DESIGN.md C19)',
}
PROPS['C15'] = {
    'extra_harnesses': r'^c11n_\w+(11|9)$',
    'explanation': 'fragment: the hand-written position arithmetic that the parsers\' error paths call (LexerHelper::get_newline_before / get_bounds composed as get_err_pos) '
                   'never aborts and yields slice bounds inside the text, for every sorted newline list (<= 4 newlines), text length and position'
                   + '; ' + RUN_NOTE + ': for a program that consists of the label start only (start maps to the appended hlt), both values of the interpreted switch and every start index, run() neither aborts nor prompts and executes exactly the appended hlt',
    'bounds': '<= 4 newlines (the code distinguishes none / first / middle / last), text length < 4096, unwind 6 with unwinding assertions',
    'outside': 'the generated LALRPOP parsers and the regex lexer (Kani cannot compile them), hence arbitrary byte sequences, time/memory proportionality, stack depth, non-UTF-8 files; LexerHelper::new (growing Vec over chars) is cut: the newline list is built directly',
    'backends': [(r'.*', ['sat', 'z3'])],
    'assumptions': ['newline list strictly increasing, inside the text; position <= length (LALRPOP reports end of input as length)'],
    'level_text': 'bounded model checking of the position helpers only; the universal statement over arbitrary input text is NOT decided (see outside)',
    'level_note': 'partial claim (fragment); a text without any newline is a known finding',
}
PROPS['C16'] = {
    'e2': True,
    'explanation': 'fragment: for every sorted newline list (<= 4), text length and position inside the text, get_err_pos (as the driver composes it) returns the number, '
                   'start and end of the line containing the position'
                   + '; ' + RUN_NOTE + ': for programs of 1 and 2 instructions, every start index, both values of the interpreted switch and every answer of get_err_pos, the stepping prompt before the FIRST instruction asks get_err_pos for exactly the position recorded for that instruction and shows the line number and text it answers; execution begins at the index of start with DS = 0',
    'bounds': '<= 4 newlines, text length < 4096, unwind 6',
    'outside': 'messages after the first executed instruction (a symbolic interpreter result makes the run-loop query intractable, DESIGN.md section 6); the message wording; which source position each emitted instruction is mapped to (SourceMapper) is checked natively by the grammar engine, not here',
    'backends': [(r'mapper', [('z3', 'cvc5'), 'sat']), (r'.*', ['sat', 'z3'])],
    'assumptions': ['as C15'],
    'level_text': 'bounded model checking of the position -> (line, start, end) function against the definition of "the line containing p"',
    'level_note': 'partial claim; last line without trailing newline and positions on a newline are known findings',
}
PROPS['C12'] = {
    'explanation': 'induction step of the layout argument: (loader) each data-parser production writes exactly the cells (DS*16 + counter + i) mod 2^20 with the '
                   'specified bytes (words low byte first, DW strings zero-extended), nothing else, and advances its counter by the size; (assembler) each directive records '
                   'its label at the current counter, advances the counter by the same size and diagnoses a segment that would exceed 64 KiB; VM::new() all-zero is C19',
    'bounds': 'loader arrays: n <= 4 elements (quick) / 16 (thorough), strings from a fixed set of 4 (lengths 0-3), unwinding assertions on; counter < 2^17; the assembler side is loop-free: all n <= 65535 and all counters',
    'outside': 'vm.arch.ds = 0 before execution and the loop that feeds the data lines (inside CMDDriver::run); longer arrays/strings than the bound',
    'backends': [(r'^c12_loader|^c12_twin', [('z3', 'cvc5'), 'sat-arrays']), (r'.*', ['sat', 'z3'])],
    'timeout': {'quick': 1200, 'thorough': 3000},
    'assumptions': ['string bodies: the assembler class [[:print:]] is a subset of the loader class [[:ascii:]] (regex classes, read from the grammars)'],
    'level_text': 'bounded model checking of one directive from an arbitrary loader / assembler state (the inductive step); the composition over a sequence of directives is the induction, stated in DESIGN.md',
    'level_note': 'trusted: Kani/CBMC/solver soundness; loader loop bound as stated',
}
PROPS['C08'] = {
    'e2': True,
    'explanation': RUN_NOTE + ' -- execution begins at the index of start; NEXT / PRINT continue at index + 1, JMP(t) at t, the appended hlt ends the run; a print statement reaches the print reader exactly once (two-instruction programs, DESIGN.md section 6).  ' + 'bookkeeping obligations only: (assembler) a code label is recorded as the index of the next emitted instruction, a procedure as the index of its first '
                   'instruction, the closing brace / RET emit exactly one "ret", CALL is accepted iff the name is a procedure; (interpreter) CALL pushes its index + 1 and '
                   'continues at the recorded index, RET resumes at the innermost pushed index (2 nested calls, arbitrary pre-existing frame), RET without CALL is an error value',
    'bounds': 'out.code holds <= 3 lines, tables hold one name, call nesting 2 (+1 pre-existing frame); String loops unwound 6-8 times',
    'extra_harnesses': r'^c14_(label|proc)_definition$|^c14_call$|^c06_combiner$',
    'outside': 'the run loop of CMDDriver::run (start lookup, appended hlt, State dispatch), hence program-level traces; macro expansion (C13)',
    'backends': [(r'.*', ['sat', 'z3'])],
    'assumptions': ['label / procedure tables = association list under Kani', 'alloc::fmt::format stubbed'],
    'level_text': 'bounded model checking of the index bookkeeping that makes jumps, calls and returns land on the right instruction; the whole-program statement is not decided',
    'level_note': 'partial claim: the run loop cannot be called in isolation and a re-implementation would not be the real code',
}
PROPS['C14'] = {
    'e2': True,
    'extra_harnesses': r'^c11n_(word|byte|sbyte|sword)_',
    'explanation': '(E1) every rejecting action of the assembler, from a symbolic table state: duplicate label / procedure, CALL of a non-procedure, jump to a data label, '
                   'OFFSET / byte / word operand on a code label or unknown name, INT other than 3/10h/21h, IN/OUT/LDS/LES/WAIT/ESC/LOCK/INTO/IRET, print range leaving 1 MiB: '
                   'Err and no line pushed.  (E2) families of invalid token shapes have no derivation in the assembler grammar.  (driver) ' + RUN_NOTE + ': an assembler error, a forward reference that is '
                   'never defined (alone, or first / second of two), a missing start label and a start that is a data label each end run() with a message and without any call of the data loader, the interpreter, the prompt or the interrupt services.',
    'bounds': 'tables with one name (absent / DATA / CODE / procedure), out.code <= 3 lines; E2: one source line at a time',
    'outside': 'driver level: programs of one instruction, at most two forward references; the assembler is a stub there (what it records is the E1 obligation above)',
    'backends': [(r'_run_', ['sat', 'z3']), (r'.*', ['sat', 'z3'])],
    'timeout': {'quick': 1200, 'thorough': 3000},
    'assumptions': ['association-list tables under Kani', 'alloc::fmt::format stubbed'],
    'level_text': 'bounded model checking of each semantic check for every table state and operand value; grammar-level emptiness by SMT over the real grammar',
    'level_note': 'the two driver-level checks are decided on the real text of run() with a stubbed environment (one-instruction programs)',
}
PROPS['C18'] = {
    'explanation': RUN_NOTE + ' -- INT 10h / INT 21h from the first instruction: the service is called exactly once with AH iff AH is supported (0Ah, 13h / 1, 2, 0Ah); otherwise a message with the line of the instruction and nothing further (two-instruction programs, DESIGN.md section 6).  ' + 'interrupts::int_21 (AH=1, 2, 0Ah) and int_13 (INT 10h AH=0Ah, 13h) of the binary crate, with the console boundary replaced: print! -> ghost log of '
                   '(format literal, argument values), stdin read_line -> arbitrary bounded ASCII line.  Exact output events, AL results, stored count / bytes, and the frame '
                   '(no other cell, register or flag changes; no address outside 1 MiB; no abort)',
    'bounds': 'input line: lengths 0, 1, 2 enumerated with symbolic content (quick), + 3 and 6 (AH=1) in the thorough tier; CX <= 4 / 8, DL <= 4 / 8 for the output loops; capacity byte, DS:DX, ES:BP, memory unconstrained',
    'outside': 'AH validation, "unsupported ... stops the program" and the int n dispatch (inside CMDDriver::run); real terminal behaviour; longer input lines (std String code over a symbolic length plus a symbolic memory index does not finish on any back end)',
    'backends': [(r'int10_count', ['sat', 'z3']), (r'int10', ['sat-arrays', ('z3', 'cvc5')]), (r'.*', [('z3', 'cvc5'), 'sat-arrays'])],
    'timeout': {'quick': 1200, 'thorough': 3000},
    'assumptions': ['in the scratch copy std::io::stdin().read_line is textually replaced by a stub and print!/println! are shadowed by logging macros (lib/gen.py); input is 7-bit ASCII without embedded line terminators'],
    'level_text': 'bounded model checking of the service routines for every register / memory state and every input line within the bound',
    'level_note': 'trusted: Kani/CBMC/solver soundness, std::fmt for turning the logged values into text',
}
PROPS['C17'] = {
    'explanation': 'the five Print actions of driver/print.lalrpop (binary crate) with print!/println! redirected to a ghost log of (format literal, argument values): '
                   'print reg shows under each label the register the label names, with spec {:04X}, all twelve; print flags the nine flag bits as 0/1 under their labels; '
                   'print mem exactly the bytes of the inclusive range in address order as {:02X}, 16 per row; backwards / out-of-space ranges are reported, nothing printed; '
                   'no index outside the memory; the machine is unchanged',
    'bounds': 'printed range <= 17 bytes (start arbitrary, so ranges ending at 0xFFFFF are covered), unwinding assertions on',
    'outside': 'rendering of the logged values into text (std::fmt), the interactive prompt path (user_interface), the assembler/interpreter side of the print statement (C10/C14)',
    'backends': [(r'reg_flags', ['sat', 'z3']), (r'print_mem', ['sat-arrays', ('z3', 'cvc5')]), (r'.*', [('z3', 'cvc5'), 'sat-arrays'])],
    'timeout': {'quick': 1200, 'thorough': 3000},
    'assumptions': ['print!/println! are shadowed by logging macros in the scratch copy (lib/gen.py); the argument expressions are the real ones'],
    'level_text': 'bounded model checking of value flow and range logic for every machine state and every range within the bound',
    'level_note': 'partial claim: values and ranges, not the final text; no prompt',
}
E2_TECH = ('SMT (z3) over the real LALRPOP grammars read back from the regenerated parsers: abstract shapes of every assembler line, emitted-text templates observed '
           'by running the real assembler, inclusion / operand-and-constant preservation decided for all register, mnemonic and numeric choices; counterexamples replayed through the real parsers')
PROPS['C10'] = {
    'e2': True, 'engine': 'gram-smt', 'technique': E2_TECH,
    'explanation': 'for every abstract line shape the assembler grammar derives (~530: every production alternative x addressing shape, registers / mnemonics / width keywords as '
                   'class slots, constants as typed integer slots), the emitted data / code / print line is, for EVERY class element and EVERY constant of the typed range, a sentence '
                   'of the downstream grammar it is destined for (data parser, interpreter, print reader); plus keyword hygiene between the lexers',
    'bounds': 'one source line at a time (what a production emits does not depend on its neighbours); identifiers abstracted to the names of the tool prelude (data byte, data word, code label, procedure); macro-generated text re-enters through the same productions (expansion itself is C13)',
    'outside': 'the Internal Error paths that depend on run-time tables are the E1 obligations of C04/C06/C08 (label kinds) -- composed, not re-decided here; white space / comments (lexer contract)',
    'assumptions': ['emitted text of a shape is a substitution template over its operands (checked by two independent instantiations per shape run through the real assembler)',
                    'source spelling -> emitted text of every class is the E1 spelling-table obligation (C11)',
                    'downstream numeric leaves accept exactly the range of their Rust type (T::from_str_radix) -- read from the action signatures'],
    'level_text': 'language inclusion between the real grammars decided by SMT over symbolic register / mnemonic choices and integer constants; every sat answer is replayed through the real Preprocessor -> Interpreter / DataParser',
    'level_note': 'trusted: grammar comments emitted by LALRPOP, the template generalisation (validated natively), z3',
}
PROPS['C11'] = {
    'e2': True, 'engine': 'gram-smt', 'technique': E2_TECH + '; plus E1 (Kani/CBMC) spelling-table harnesses',
    'explanation': '(E1) the assembler\'s u_byte_num / u_word_num leaves on symbolic decimal, 0x and 0b token text (value when it fits, diagnostic otherwise) and the interpreter\'s decimal leaves (the numeric model E2 relies on); (E2) for every assembler line shape: no instantiation is accepted downstream with a different operand order, a missing operand, or a constant that differs from the '
                   'source constant modulo the source width (following the cast chain of the downstream numeric leaf); (E1) every source spelling of every mnemonic / register / keyword '
                   'table (both cases, all synonyms) emits the lower-case spelling or its Intel synonym',
    'bounds': 'one source line at a time; constants over their whole typed range; spelling tables exhaustively',
    'outside': 'white space, line breaks and ;-comments (LALRPOP lexer / regex inside CMDDriver::run); raw_addr / negative-decimal / OFFSET leaves of the assembler are covered by E2 observation only',
    'backends': [(r'.*', ['sat', 'z3'])],
    'assumptions': ['synonym table transcribed from the Intel manual (lib/gen.py SYNONYMS)', 'as C10'],
    'level_text': 'operand-role and constant preservation across the text interface decided by SMT for all constants; case/synonym independence by exhaustive symbolic execution of the real table actions',
    'level_note': 'trusted: as C10; first operand = destination in every interpreter production is established by the B-harnesses of C01/C02/C05',
}

PROPS['C20'] = {
    'extra_harnesses': r'_run_first_|^c16_run_first_instruction|^c15_run_empty_program$',
    'explanation': RUN_NOTE + ': programs of 2 instructions in which the first executed instruction returns each result kind in turn (NEXT, JMP(any index), PRINT, REPEAT, INT 0, INT 3, INT 10h, INT 21h; '
                   'one harness per kind) and leaves ANY flag word (so it may set or clear TF) and ANY AX, for both values of the interpreted switch and every start index, compared event by event with a reference run loop: '
                   'exactly one prompt (preceded by a message that shows the line get_err_pos answers for the position recorded for THAT instruction) before each instruction that is executed while the switch or TF is on, '
                   'none otherwise and none for the appended hlt; INT 3 prompts once and continues; the next instruction is the one the state selects whatever the stepping mode (transparency of the instruction sequence); '
                   'the machine is not touched between instructions; empty program: no prompt, no abort',
    'bounds': 'two executed instructions (the second one is answered HALT by the script), result kind of the first fixed per harness, its data symbolic; unwind 12 with unwinding assertions',
    'outside': 'the prompt loop user_interface() itself (print commands, n / next, q / quit, end of input): its harness (attic/ui_c20.rs) does not finish on any back end (DESIGN.md section 6); longer runs and a symbolic '
               'result KIND (7-way) do not finish either; real stdin/stdout and exit status; equality of the final machine state follows from the same instruction sequence + the prompt taking the machine by shared reference + C19 determinism, it is not re-decided',
    'backends': [(r'.*', ['sat', 'z3'])],
    'timeout': {'quick': 1200, 'thorough': 3000},
    'assumptions': ['driver.rs is compiled from a copy whose `use` lines name the stubs of harness/drv.rs; the function body is unchanged',
                    'interpreter stub: the appended hlt halts, jump targets <= number of instructions (C06/C08 bookkeeping obligations); get_err_pos stub: arbitrary (line, start <= end <= text length) per call',
                    'recorded source positions are concrete and pairwise distinct (0, 7, 300, 65541): a symbolic scalar inside the assembler result makes CBMC lose the constants of that struct'],
    'level_text': 'bounded model checking of the real run loop text for the first two instructions with the environment as nondeterministic stubs',
    'level_note': 'partial claim: the run-loop clauses (prompt placement, INT 3, transparency of the instruction sequence) for two instructions; the prompt commands and end of input are NOT decided',
}

NOT_APPLICABLE = {

    'C13': 'macro definition/use is regex::Regex + a recursive call of the generated parser on heap strings; Kani cannot compile the regex engine or the LALRPOP driver (compiler ICE), and a hand model of the substitution would not be the real code',
}
