"""Per-property configuration of the E1 checks (harness selection is by name prefix cNN_)."""

COMMON_ASSUMPTIONS = [
    'rustc/Kani 0.68 MIR->goto translation, CBMC 6.11 symbolic execution and the SAT/SMT back ends are sound',
    'an uninitialised 1 MiB heap object stands for arbitrary memory contents (CBMC semantics)',
    'Kani models the dev/test profile (integer-overflow checks on); release behaviour is observed by replay only',
    'reference oracles are hand-written from the 8086 Family User\'s Manual; architecturally undefined flags are not compared',
    'every solver counterexample is replayed natively against the real code before it is reported',
]

PROPS = {
    'C01': {
        'explanation': 'ADD/ADC/SUB/SBB/CMP/INC/DEC/NEG kernels and the binary/unary arithmetic productions of the '
                       'interpreter grammar, decided against a reference for every operand value, flag word, register '
                       'choice, memory address and memory content',
        'bounds': 'loop-free: every value of every symbolic input (operands, 16-bit flag word, 14 registers, 1 MiB memory, probe address)',
        'outside': 'the LALRPOP parser driver / lexer (which production fires for which text) is validated by native '
                   'runs of the real parser on rendered instructions, not by the solver',
        'assumptions': [],
    },
}
