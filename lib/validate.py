import json, sys, glob, jsonschema
m = json.load(open('/verif/MANIFEST.json'))
jsonschema.validate(m, json.load(open('/root/.vp/MANIFEST.schema.json')))
es = json.load(open('/root/.vp/EVIDENCE.schema.json'))
for f in sorted(glob.glob('/verif/evidence/*.json')):
    jsonschema.validate(json.load(open(f)), es)
    print('ok', f)
props = [json.loads(l)['id'] for l in open('/verif/properties.jsonl')]
claimed = {c['property_id'] for c in m['checks']}
na = {n['property_id'] for n in m.get('not_applicable', [])}
print('claimed', sorted(claimed)); print('n/a', sorted(na)); print('unlisted', [p for p in props if p not in claimed and p not in na])
