// Native observation / replay tool of the grammar engine (E2): runs the REAL parsers on concrete
// text.  Protocol (stdin, one request per line, fields separated by TAB):
//   A <source line>   assemble PRELUDE + line with the real Preprocessor; report what the line emitted
//   I <emitted line>  execute the line with the real Interpreter on a fresh VM, context = prelude's tables
//   D <data line>     load the line with the real DataParser on a fresh VM
// PRELUDE defines: data labels vb (offset 0, byte) and vw (offset 1, word), code label lc, procedure pr.
use emulator_8086_lib::{DataParser, Interpreter, InterpreterContext, Preprocessor, PreprocessorContext, PreprocessorOutput, VM};
use std::io::{BufRead, Write};

const PRE_DATA: &str = "vb: DB 5\nvw: DW 7\n";
const PRE_CODE: &str = "def pr { hlt }\nlc: hlt\n";

fn assemble(line: &str, is_data: bool) -> Result<(PreprocessorContext, PreprocessorOutput, usize, usize), String> {
    let pre = if is_data { PRE_DATA.to_string() } else { format!("{}{}", PRE_DATA, PRE_CODE) };
    let p = Preprocessor::new();
    let mut c0 = PreprocessorContext::default();
    let mut o0 = PreprocessorOutput::default();
    p.parse(&mut c0, &mut o0, &pre).map_err(|e| format!("prelude: {}", e))?;
    let (nc, nd) = (o0.code.len(), o0.data.len());
    let mut ctx = PreprocessorContext::default();
    let mut out = PreprocessorOutput::default();
    let src = format!("{}{}\n", pre, line);
    match p.parse(&mut ctx, &mut out, &src) {
        Ok(_) => Ok((ctx, out, nc, nd)),
        Err(e) => Err(short(format!("{}", e))),
    }
}

fn short(s: String) -> String {
    let t = s.replace('\n', " ").replace('\t', " ");
    t.chars().take(160).collect()
}

fn main() {
    std::panic::set_hook(Box::new(|_| {}));
    let stdin = std::io::stdin();
    let stdout = std::io::stdout();
    let mut w = stdout.lock();
    let interp = Interpreter::new();
    let dp = DataParser::new();
    for l in stdin.lock().lines() {
        let l = match l { Ok(l) => l, Err(_) => break };
        let mut it = l.splitn(2, '\t');
        let cmd = it.next().unwrap_or("");
        let arg = it.next().unwrap_or("");
        match cmd {
            "A" | "AD" => {
                let r = std::panic::catch_unwind(|| assemble(arg, cmd == "AD"));
                match r {
                    Err(_) => { writeln!(w, "PANIC").ok(); }
                    Ok(Err(e)) => { writeln!(w, "ERR\t{}", e).ok(); }
                    Ok(Ok((ctx, out, nc, nd))) => {
                        let code: Vec<String> = out.code[nc..].to_vec();
                        let data: Vec<String> = out.data[nd..].to_vec();
                        let pre_len = if cmd == "AD" { PRE_DATA.len() } else { PRE_DATA.len() + PRE_CODE.len() };
                        let map = ctx.mapper.get_source_map();
                        let pos: Vec<String> = (nc..out.code.len()).map(|i| match map.get(&i) { Some(p) => format!("{}", *p as i64 - pre_len as i64), None => "none".to_string() }).collect();
                        writeln!(w, "OK\t{}\t{}\t{}", code.join("\x1f"), data.join("\x1f"), pos.join(",")).ok();
                    }
                }
            }
            "I" => {
                let r = std::panic::catch_unwind(|| {
                    let (pctx, _out, _, _) = assemble("hlt", false).map_err(|e| e)?;
                    let PreprocessorContext { label_map, fn_map, .. } = pctx;
                    let mut ictx = InterpreterContext { fn_map, label_map, call_stack: vec![3] };
                    let mut vm = VM::new();
                    vm.arch.ax = 1;
                    vm.arch.bx = 1;
                    vm.arch.cx = 1;
                    vm.arch.dx = 0;
                    match Interpreter::new().parse(1, &mut vm, &mut ictx, arg) {
                        Ok(s) => Ok(format!("{:?}", s)),
                        Err(e) => Err(short(format!("{}", e))),
                    }
                });
                let _ = &interp;
                match r {
                    Err(_) => { writeln!(w, "PANIC").ok(); }
                    Ok(Err(e)) => { writeln!(w, "ERR\t{}", e).ok(); }
                    Ok(Ok(s)) => { writeln!(w, "OK\t{}", s).ok(); }
                }
            }
            "X" => {
                // execute the line on a machine in a fixed non-trivial state; report state + digest
                let r = std::panic::catch_unwind(|| {
                    let (pctx, _out, _, _) = assemble("hlt", false).map_err(|e| e)?;
                    let PreprocessorContext { label_map, fn_map, .. } = pctx;
                    let mut ictx = InterpreterContext { fn_map, label_map, call_stack: vec![3] };
                    let mut vm = VM::new();
                    for (i, b) in vm.mem.iter_mut().enumerate() {
                        *b = (i as u8).wrapping_mul(7).wrapping_add(3);
                    }
                    vm.arch.ax = 0x1234; vm.arch.bx = 0x0100; vm.arch.cx = 0x0003; vm.arch.dx = 0x0005;
                    vm.arch.sp = 0x0200; vm.arch.bp = 0x0300; vm.arch.si = 0x0400; vm.arch.di = 0x0500;
                    vm.arch.ds = 0x0010; vm.arch.es = 0x0020; vm.arch.ss = 0x0030; vm.arch.flag = 0xF001;
                    let mut st = String::new();
                    let mut rounds = 0;
                    loop {
                        match Interpreter::new().parse(1, &mut vm, &mut ictx, arg) {
                            Ok(s) => {
                                st = format!("{:?}", s);
                                rounds += 1;
                                if st != "REPEAT" || rounds > 8 { break; }
                            }
                            Err(e) => return Err(short(format!("{}", e))),
                        }
                    }
                    let mut h: u64 = 0xcbf29ce484222325;
                    for b in vm.mem.iter() { h = (h ^ *b as u64).wrapping_mul(0x100000001b3); }
                    let a = &vm.arch;
                    Ok(format!("{} {:x} {:x} {:x} {:x} {:x} {:x} {:x} {:x} {:x} {:x} {:x} {:x} {:x} {:x} {:x}", st, a.flag, a.ax, a.bx, a.cx, a.dx, a.sp, a.bp, a.si, a.di, a.ip, a.cs, a.ds, a.ss, a.es, h))
                });
                match r {
                    Err(_) => { writeln!(w, "PANIC").ok(); }
                    Ok(Err(e)) => { writeln!(w, "ERR\t{}", e).ok(); }
                    Ok(Ok(s)) => { writeln!(w, "OK\t{}", s).ok(); }
                }
            }
            "XD" => {
                // load a data line at a fixed counter / segment and report counter + digest
                let r = std::panic::catch_unwind(|| {
                    let mut vm = VM::new();
                    vm.arch.ds = 0x0010;
                    let mut ctr = 5usize;
                    match DataParser::new().parse(&mut vm, &mut ctr, arg) {
                        Ok(_) => {
                            let mut h: u64 = 0xcbf29ce484222325;
                            for b in vm.mem.iter() { h = (h ^ *b as u64).wrapping_mul(0x100000001b3); }
                            Ok(format!("{} {:x} {:x}", ctr, vm.arch.ds, h))
                        }
                        Err(e) => Err(short(format!("{}", e))),
                    }
                });
                match r {
                    Err(_) => { writeln!(w, "PANIC").ok(); }
                    Ok(Err(e)) => { writeln!(w, "ERR\t{}", e).ok(); }
                    Ok(Ok(s)) => { writeln!(w, "OK\t{}", s).ok(); }
                }
            }
            "D" => {
                let r = std::panic::catch_unwind(|| {
                    let mut vm = VM::new();
                    let mut ctr = 0usize;
                    match DataParser::new().parse(&mut vm, &mut ctr, arg) {
                        Ok(_) => Ok(format!("{}", ctr)),
                        Err(e) => Err(short(format!("{}", e))),
                    }
                });
                let _ = &dp;
                match r {
                    Err(_) => { writeln!(w, "PANIC").ok(); }
                    Ok(Err(e)) => { writeln!(w, "ERR\t{}", e).ok(); }
                    Ok(Ok(s)) => { writeln!(w, "OK\t{}", s).ok(); }
                }
            }
            _ => { writeln!(w, "BADCMD").ok(); }
        }
        w.flush().ok();
    }
}
