"""Writes the repetitive B-harness instantiations (harness/interp_c01.rs, interp_c02.rs, interp_c03.rs).
The macro bodies live in harness/interp_ab_ops.rs; this script only spells out, per production,
which builders and which production function are combined.  Re-run after editing it."""
FORMS = [
 ('rr', 'dst_regW', 'src_regW', 'WW_reg__COMMA__WW_reg', '(0, f, 0), (0, d.R, 0), C, (0, s.R, 0)', 'no'),
 ('rm', 'dst_regW', 'opnd_mem', 'WW_reg__COMMA__T_WW__memory_addr', '(0, f, 0), (0, d.R, 0), C, KK, (0, s.m, 0)', 'yes'),
 ('rl', 'dst_regW', 'opnd_lab', 'WW_reg__COMMA__WW_label', '(0, f, 0), (0, d.R, 0), C, (0, s.m, 0)', 'yes'),
 ('mr', 'opnd_mem', 'src_regW', 'T_WW__memory_addr__COMMA__WW_reg', '(0, f, 0), KK, (0, d.m, 0), C, (0, s.R, 0)', 'yes'),
 ('lr', 'opnd_lab', 'src_regW', 'WW_label__COMMA__WW_reg', '(0, f, 0), (0, d.m, 0), C, (0, s.R, 0)', 'yes'),
 ('ri', 'dst_regW', 'IMM', 'WW_reg__COMMA__IMMNT', '(0, f, 0), (0, d.R, 0), C, (0, IMMV, 0)', 'no'),
 ('mi', 'opnd_mem', 'IMM', 'T_WW__memory_addr__COMMA__IMMNT', '(0, f, 0), KK, (0, d.m, 0), C, (0, IMMV, 0)', 'yes'),
 ('li', 'opnd_lab', 'IMM', 'WW_label__COMMA__IMMNT', '(0, f, 0), (0, d.m, 0), C, (0, IMMV, 0)', 'yes'),
]
HDR = 'use crate::{vassert, vassume, vcell, vcover, vsym};\n\n'


def table(names):
    return 'pub const TABLE: &[(&str, fn())] = &[\n' + ''.join('    ("%s", %s),\n' % (n, n) for n in names) + '];\n'


SHIFT_FORMS = [
 ('ri', 'dst_regW', 'src_imm_u8', 'WW_reg__COMMA__u_byte_num', '(0, f, 0), (0, d.R, 0), C, (0, s.imm as u8, 0)', 'no'),
 ('rc', 'dst_regW', 'src_cl', 'WW_reg__COMMA__reg_cl', '(0, f, 0), (0, d.R, 0), C, (0, s.b, 0)', 'no'),
 ('mi', 'opnd_mem', 'src_imm_u8', 'T_WW__memory_addr__COMMA__u_byte_num', '(0, f, 0), KK, (0, d.m, 0), C, (0, s.imm as u8, 0)', 'yes'),
 ('mc', 'opnd_mem', 'src_cl', 'T_WW__memory_addr__COMMA__reg_cl', '(0, f, 0), KK, (0, d.m, 0), C, (0, s.b, 0)', 'yes'),
 ('li', 'opnd_lab', 'src_imm_u8', 'WW_label__COMMA__u_byte_num', '(0, f, 0), (0, d.m, 0), C, (0, s.imm as u8, 0)', 'yes'),
 ('lc', 'opnd_lab', 'src_cl', 'WW_label__COMMA__reg_cl', '(0, f, 0), (0, d.m, 0), C, (0, s.b, 0)', 'yes'),
]


def shifts(prop):
    out, names = [], []
    lab = prop.upper() + 'b'
    for w in (8, 16):
        ww = 'byte' if w == 8 else 'word'
        for (k, mkd, mks, tail, args, probe) in SHIFT_FORMS:
            sub = lambda x: x.replace('regW', 'reg%d' % w).replace('WW', ww).replace('KK', 'KB' if w == 8 else 'KW').replace('d.R', 'd.b' if w == 8 else 'd.w')
            prod = 'p_shift_rotate__%s_shift_rotate__%s' % (ww, sub(tail))
            h = '%sb_shift_%s%d' % (prop, k, w)
            ntf = 'nt_%s_shift_rotate' % ww
            NT = 'NT_%s_shift_rotate' % ww
            call = '|vm: &mut VM, ctx: &mut Context, f, d: &Op, s: &Op| %s(CUR, vm, ctx, "", %s)' % (prod, sub(args))
            out.append('binop%d!(%s, "%s.shift.%s%d", %s, %s_N, %s_TEXT, %s, %s, false, %s,\n    %s);'
                       % (w, h, lab, k, w, ntf, NT, NT, sub(mkd), mks, probe, call))
            names.append(h)
            if probe == 'no':
                out.append('frame_only!(%s_frame, "%s.shift.%s%d", %s, %s_N, %s, %s,\n    %s);' % (h, lab, k, w, ntf, NT, sub(mkd), mks, call))
                names.append(h + '_frame')
    return out, names


def nots(prop):
    out, names = [], []
    for w in (8, 16):
        ww = 'byte' if w == 8 else 'word'
        for k, mk, tail, args in (('r', 'dst_reg%d' % w, '%s_reg' % ww, '(0, d.%s, 0)' % ('b' if w == 8 else 'w')),
                                  ('m', 'opnd_mem', 'T_%s__memory_addr' % ww, '%s, (0, d.m, 0)' % ('KB' if w == 8 else 'KW')),
                                  ('l', 'opnd_lab', '%s_label' % ww, '(0, d.m, 0)')):
            h = '%sb_not_%s%d' % (prop, k, w)
            out.append('notop!(%s, "C02b.not.%s%d", %d, %s,\n    |vm: &mut VM, ctx: &mut Context, d: &Op| p_not__T_not__%s(CUR, vm, ctx, "", (0, "not", 0), %s));'
                       % (h, k, w, w, mk, tail, args))
            names.append(h)
    return out, names


MOV_FORMS = [
 # (name, width, dst builder, src builder, production tail, args, probe)
 ('rr8', 8, 'dst_reg8', 'src_reg8', 'byte_reg__COMMA__byte_reg', '(0, d.b, 0), C, (0, s.b, 0)', 'no'),
 ('rr16', 16, 'dst_reg16', 'src_reg16', 'word_reg__COMMA__word_reg', '(0, d.w, 0), C, (0, s.w, 0)', 'no'),
 ('rm8', 8, 'dst_reg8', 'opnd_mem', 'byte_reg__COMMA__T_byte__memory_addr', '(0, d.b, 0), C, KB, (0, s.m, 0)', 'yes'),
 ('rm16', 16, 'dst_reg16', 'opnd_mem', 'word_reg__COMMA__T_word__memory_addr', '(0, d.w, 0), C, KW, (0, s.m, 0)', 'yes'),
 ('rl8', 8, 'dst_reg8', 'opnd_lab', 'byte_reg__COMMA__byte_label', '(0, d.b, 0), C, (0, s.m, 0)', 'yes'),
 ('rl16', 16, 'dst_reg16', 'opnd_lab', 'word_reg__COMMA__word_label', '(0, d.w, 0), C, (0, s.m, 0)', 'yes'),
 ('mr8', 8, 'opnd_mem', 'src_reg8', 'T_byte__memory_addr__COMMA__byte_reg', 'KB, (0, d.m, 0), C, (0, s.b, 0)', 'yes'),
 ('mr16', 16, 'opnd_mem', 'src_reg16', 'T_word__memory_addr__COMMA__word_reg', 'KW, (0, d.m, 0), C, (0, s.w, 0)', 'yes'),
 ('lr8', 8, 'opnd_lab', 'src_reg8', 'byte_label__COMMA__byte_reg', '(0, d.m, 0), C, (0, s.b, 0)', 'yes'),
 ('lr16', 16, 'opnd_lab', 'src_reg16', 'word_label__COMMA__word_reg', '(0, d.m, 0), C, (0, s.w, 0)', 'yes'),
 ('ri8', 8, 'dst_reg8', 'src_imm_s8', 'byte_reg__COMMA__s_byte_num', '(0, d.b, 0), C, (0, s.imm as u8 as i8, 0)', 'no'),
 ('ri16', 16, 'dst_reg16', 'src_imm_s16', 'word_reg__COMMA__s_word_num', '(0, d.w, 0), C, (0, s.imm as i16, 0)', 'no'),
 ('mi8', 8, 'opnd_mem', 'src_imm_s8', 'T_byte__memory_addr__COMMA__s_byte_num', 'KB, (0, d.m, 0), C, (0, s.imm as u8 as i8, 0)', 'yes'),
 ('mi16', 16, 'opnd_mem', 'src_imm_s16', 'T_word__memory_addr__COMMA__s_word_num', 'KW, (0, d.m, 0), C, (0, s.imm as i16, 0)', 'yes'),
 ('li8', 8, 'opnd_lab', 'src_imm_s8', 'byte_label__COMMA__s_byte_num', '(0, d.m, 0), C, (0, s.imm as u8 as i8, 0)', 'yes'),
 ('li16', 16, 'opnd_lab', 'src_imm_s16', 'word_label__COMMA__s_word_num', '(0, d.m, 0), C, (0, s.imm as i16, 0)', 'yes'),
 ('sr', 16, 'dst_seg', 'src_reg16', 'seg_reg__COMMA__word_reg', '(0, d.w, 0), C, (0, s.w, 0)', 'no'),
 ('rs', 16, 'dst_reg16', 'src_seg', 'word_reg__COMMA__seg_reg', '(0, d.w, 0), C, (0, s.w, 0)', 'no'),
 ('ms', 16, 'opnd_mem', 'src_seg', 'T_word__memory_addr__COMMA__seg_reg', 'KW, (0, d.m, 0), C, (0, s.w, 0)', 'yes'),
 ('ls', 16, 'opnd_lab', 'src_seg', 'word_label__COMMA__seg_reg', '(0, d.m, 0), C, (0, s.w, 0)', 'yes'),
 ('sm', 16, 'dst_seg', 'opnd_mem', 'seg_reg__COMMA__T_word__memory_addr', '(0, d.w, 0), C, KW, (0, s.m, 0)', 'yes'),
 ('sl', 16, 'dst_seg', 'opnd_lab', 'seg_reg__COMMA__word_label', '(0, d.w, 0), C, (0, s.m, 0)', 'yes'),
]
XCHG_FORMS = [
 ('rr8', 8, 'dst_reg8', 'src_reg8', 'byte_reg__COMMA__byte_reg', '(0, d.b, 0), C, (0, s.b, 0)', 'no'),
 ('rr16', 16, 'dst_reg16', 'src_reg16', 'word_reg__COMMA__word_reg', '(0, d.w, 0), C, (0, s.w, 0)', 'no'),
 ('mr8', 8, 'opnd_mem', 'src_reg8', 'T_byte__memory_addr__COMMA__byte_reg', 'KB, (0, d.m, 0), C, (0, s.b, 0)', 'yes'),
 ('mr16', 16, 'opnd_mem', 'src_reg16', 'T_word__memory_addr__COMMA__word_reg', 'KW, (0, d.m, 0), C, (0, s.w, 0)', 'yes'),
 ('lr8', 8, 'opnd_lab', 'src_reg8', 'byte_label__COMMA__byte_reg', '(0, d.m, 0), C, (0, s.b, 0)', 'yes'),
 ('lr16', 16, 'opnd_lab', 'src_reg16', 'word_label__COMMA__word_reg', '(0, d.m, 0), C, (0, s.w, 0)', 'yes'),
]


def movs():
    out, names = [], []
    for mac, kw, forms in (('movop', 'mov', MOV_FORMS), ('xchgop', 'xchg', XCHG_FORMS)):
        for (k, w, mkd, mks, tail, args, probe) in forms:
            h = 'c05_%s_%s' % (kw, k)
            out.append('%s!(%s, "C05.%s.%s", %d, %s, %s, %s,\n    |vm: &mut VM, ctx: &mut Context, d: &Op, s: &Op| p_%s__T_%s__%s(CUR, vm, ctx, "", (0, "%s", 0), %s));'
                       % (mac, h, kw, k, w, mkd, mks, probe, kw, kw, tail, kw, args))
            names.append(h)
    return out, names


def binary(prop, fam, signed):
    out, names = [], []
    lab = prop.upper() + 'b'
    for w in (8, 16):
        ww = 'byte' if w == 8 else 'word'
        for (k, mkd, mks, tail, args, probe) in FORMS:
            if signed:
                immnt = 's_%s_num' % ww
                immv = 's.imm as u8 as i8' if w == 8 else 's.imm as i16'
                mki = 'src_imm_s%d' % w
            else:
                immnt = 'u_%s_num' % ww
                immv = 's.imm as u8' if w == 8 else 's.imm'
                mki = 'src_imm_u%d' % w
            sub = lambda x: x.replace('regW', 'reg%d' % w).replace('WW', ww).replace('KK', 'KB' if w == 8 else 'KW') \
                .replace('.R', '.b' if w == 8 else '.w').replace('IMMNT', immnt).replace('IMMV', immv).replace('IMM', mki)
            prod = 'p_binary_%s__%s_binary_%s__%s' % (fam, ww, fam, sub(tail))
            h = '%sb_%s_%s%d' % (prop, fam, k, w)
            ntf = 'nt_%s_binary_%s' % (ww, fam)
            NT = 'NT_%s_binary_%s' % (ww, fam)
            call = '|vm: &mut VM, ctx: &mut Context, f, d: &Op, s: &Op| %s(CUR, vm, ctx, "", %s)' % (prod, sub(args))
            out.append('binop%d!(%s, "%s.%s.%s%d", %s, %s_N, %s_TEXT, %s, %s, %s, %s,\n    %s);'
                       % (w, h, lab, fam, k, w, ntf, NT, NT, sub(mkd), sub(mks), 'true' if signed else 'false', probe, call))
            names.append(h)
            if probe == 'no':
                out.append('frame_only!(%s_frame, "%s.%s.%s%d", %s, %s_N, %s, %s,\n    %s);'
                           % (h, lab, fam, k, w, ntf, NT, sub(mkd), sub(mks), call))
                names.append(h + '_frame')
    return out, names


def unary(prop, lab, filt, split_regs=False):
    out, names = [], []
    for w, t in ((8, 'u8'), (16, 'u16')):
        ww = 'byte' if w == 8 else 'word'
        for k, mk, tail, args, probe in (('r', 'dst_reg%d' % w, '%s_reg' % ww, '(0, f, 0), (0, d.%s, 0)' % ('b' if w == 8 else 'w'), 'no'),
                                         ('m', 'opnd_mem', 'T_%s__memory_addr' % ww, '(0, f, 0), %s, (0, d.m, 0)' % ('KB' if w == 8 else 'KW'), 'yes'),
                                         ('l', 'opnd_lab', '%s_label' % ww, '(0, f, 0), (0, d.m, 0)', 'yes')):
            h = '%sb_unary_%s%d' % (prop, k, w)
            NT = 'NT_%s_unary_arithmetic' % ww
            if k == 'r' and split_regs:
                # one instance per operand register (8 each): with the register concrete the kernel's
                # multiplier / divider is the same circuit on both sides of the comparison
                call = '|vm: &mut VM, ctx: &mut Context, f, d: &Op| p_unary_arithmetic__%s_unary_arithmetic__%s(CUR, vm, ctx, "", %s)' % (ww, tail, args)
                for r in range(8):
                    hh = '%s_k%d' % (h, r)
                    out.append('unop!(%s, "%s.unary.%s%d", %s, %d, nt_%s_unary_arithmetic, %s_N, %s_TEXT, %s_ID, dst_reg%d_k%d,\n    %s, no,\n    %s);'
                               % (hh, lab, k, w, t, w, ww, NT, NT, NT, w, r, filt, call))
                    names.append(hh)
                out.append('frame_only_un!(%s_frame, "%s.unary.%s%d", nt_%s_unary_arithmetic, %s_N, %s_ID, %s,\n    %s,\n    %s);'
                           % (h, lab, k, w, ww, NT, NT, mk, filt, call))
                names.append(h + '_frame')
                continue
            call = '|vm: &mut VM, ctx: &mut Context, f, d: &Op| p_unary_arithmetic__%s_unary_arithmetic__%s(CUR, vm, ctx, "", %s)' % (ww, tail, args)
            out.append('unop!(%s, "%s.unary.%s%d", %s, %d, nt_%s_unary_arithmetic, %s_N, %s_TEXT, %s_ID, %s,\n    %s, %s,\n    %s);'
                       % (h, lab, k, w, t, w, ww, NT, NT, NT, mk, filt, probe, call))
            names.append(h)
            if probe == 'no':
                out.append('frame_only_un!(%s_frame, "%s.unary.%s%d", nt_%s_unary_arithmetic, %s_N, %s_ID, %s,\n    %s,\n    %s);'
                           % (h, lab, k, w, ww, NT, NT, mk, filt, call))
                names.append(h + '_frame')
    return out, names


TWIN = '''
#[cfg_attr(kani, kani::proof)]
pub fn %s_twin_reach() {
    let mut vm = mk_vm();
    let mut ctx = mk_ctx();
    let d = opnd_mem(&mut vm, &mut ctx);
    vassert!("%s.twin.must_fail", d.m != 77);
    done_ctx(ctx);
    done(vm);
}
'''

if __name__ == '__main__':
    import os
    H = os.path.join(os.path.dirname(os.path.dirname(os.path.abspath(__file__))), 'harness')
    b, bn = binary('c01', 'arithmetic', True)
    u, un = unary('c01', 'C01b', '|id: u8| id == ID_dec || id == ID_inc || id == ID_neg')
    open(os.path.join(H, 'interp_c01.rs'), 'w').write(
        '// C01 (B-harnesses): the 16 binary_arithmetic and 6 unary_arithmetic (INC/DEC/NEG) productions.\n'
        '// Instantiations written by lib/mk_interp_harness.py; the bodies are the macros of interp_ab_ops.rs.\n' + HDR
        + '\n'.join(b) + '\n\n' + '\n'.join(u) + TWIN % ('c01b', 'C01b') + '\n' + table(bn + un + ['c01b_twin_reach']))
    u, un = unary('c03', 'C03b', '|id: u8| !(id == ID_dec || id == ID_inc || id == ID_neg)', split_regs=True)
    open(os.path.join(H, 'interp_c03.rs'), 'w').write(
        '// C03 (B-harnesses): the 6 unary_arithmetic productions with MUL/IMUL/DIV/IDIV (divide error -> INT 0).\n' + HDR
        + '\n'.join(u) + '\n\n' + table(un))
    b, bn = binary('c02', 'logical', False)
    sh, shn = shifts('c02')
    n, nn = nots('c02')
    open(os.path.join(H, 'interp_c02.rs'), 'w').write(
        '// C02 (B-harnesses): the 16 binary_logical, 12 shift_rotate and 6 not productions.\n'
        '// Instantiations written by lib/mk_interp_harness.py; the bodies are the macros of interp_ab_ops.rs.\n' + HDR
        + '\n'.join(b) + '\n\n' + '\n'.join(sh) + '\n\n' + '\n'.join(n) + TWIN % ('c02b', 'C02b') + '\n' + table(bn + shn + nn + ['c02b_twin_reach']))
    m, mn = movs()
    hand = open(os.path.join(H, 'interp_c05_hand.rs.in')).read()
    hand_names = __import__('re').findall(r'pub fn (c05\w+)\(', hand)
    open(os.path.join(H, 'interp_c05.rs'), 'w').write(
        '// C05: MOV (22 productions), XCHG (6), PUSH/POP, PUSHF/POPF, LAHF/SAHF, XLAT.\n'
        '// mov/xchg instantiations written by lib/mk_interp_harness.py; the rest comes from interp_c05_hand.rs.in.\n' + HDR
        + '\n'.join(m) + '\n\n' + hand + '\n' + table(mn + hand_names))
    # C04: "read and written at that address, both widths, word = two consecutive bytes low-then-high"
    c4 = []
    c4n = []
    for (k, w, mkd, mks, tail, args, probe) in MOV_FORMS:
        if k in ('rm8', 'rm16', 'mr8', 'mr16', 'rl16', 'lr16'):
            h = 'c04w_mov_%s' % k
            c4.append('movop!(%s, "C04.access.%s", %d, %s, %s, %s,\n    |vm: &mut VM, ctx: &mut Context, d: &Op, s: &Op| p_mov__T_mov__%s(CUR, vm, ctx, "", (0, "mov", 0), %s));'
                      % (h, k, w, mkd, mks, probe, tail, args))
            c4n.append(h)
    open(os.path.join(H, 'interp_c04w.rs'), 'w').write(
        '// C04: accesses AT the resolved address (byte, and word = low byte at m, high byte at m+1 mod 2^20).\n' + HDR
        + '\n'.join(c4) + '\n\n' + table(c4n))
    print('written')
